#!/bin/sh
# process_round_wt.sh <worktree-prefix e.g. /tmp/w4-> <Cnn...> : confirm every SEED1/SEED2 and run the property's quick check against it
# in the seed's own scratch worktree (moved to /repo HEAD first); /repo itself is not touched.
PFX="$1"; shift
H=$(git -C /repo rev-parse HEAD)
for p in "$@"; do
  git -C "$PFX$p" checkout -q -- . 2>/dev/null; git -C "$PFX$p" checkout -q --detach "$H" 2>/dev/null
  for i in 1 2; do
    s="$PFX$p/SEED$i"
    [ -f "$s/patch.diff" ] || { echo "$p-SEED$i MISSING"; continue; }
    t=$(grep -c '^diff.*tests/' "$s/patch.diff")
    c=$(/verif/tools/confirm_seed.sh "$s" 2>&1 | tail -1)
    d=$(/verif/tools/try_seed_wt.sh "$PFX$p" "$s/patch.diff" $p 2>&1 | tail -1)
    echo "$p-SEED$i tests_edits=$t | $c | $d"
  done
done
