#!/bin/sh
# try_seed_wt.sh <worktree> <patch.diff> <check ids...> : like try_seed.sh but applies the patch to a scratch worktree and
# points the checks at it through PYTHONPATH, so that /repo stays untouched (several can run side by side).
set -u
W="$1"; P="$2"; shift 2
git -C "$W" status --porcelain --untracked-files=no | grep -q . && { echo "$W not clean"; exit 2; }
git -C "$W" apply "$P" || { echo "patch does not apply"; exit 3; }
RC=0
export VERIF_SCRATCH_OUT="/dev/shm/verif-seedout-$$"
for c in "$@"; do
  OUT=$(cd /verif && PYTHONPATH="$W" ./check "$c" --tier "${TIER:-quick}" 2>&1 | grep -v WARNING | grep "^\[C\|^VIOLATION\|clause=" | cut -c1-330 | head -12)
  echo "$OUT"
  echo "$OUT" | grep -q "^VIOLATION" && RC=1
done
git -C "$W" checkout -- .
rm -rf "$VERIF_SCRATCH_OUT"
echo "DETECTED=$RC"
