#!/usr/bin/env python3
"""Run the repository's pinned suite (guard off) and compare with BASELINE.json stable_pass."""
import json, os, subprocess, sys, tempfile, xml.etree.ElementTree as ET

repo = sys.argv[1] if len(sys.argv) > 1 else "/repo"
base = json.load(open("/root/.vp/BASELINE.json"))
env = dict(os.environ)
env.pop("ARIADNE_CODEGEN_VERIF", None)
with tempfile.TemporaryDirectory() as td:
    junit = os.path.join(td, "j.xml")
    cmd = ["/venv/bin/python", "-m", "pytest", "-ra", "-q", "-p", "no:cacheprovider", "--timeout=900",
           "--continue-on-collection-errors", f"--junitxml={junit}"]
    subprocess.run(cmd, cwd=repo, env=env, stdout=subprocess.DEVNULL, stderr=subprocess.DEVNULL)
    passed = set()
    for tc in ET.parse(junit).getroot().iter("testcase"):
        if not any(ch.tag in ("failure", "error", "skipped") for ch in tc):
            passed.add(f"{tc.get('classname')}::{tc.get('name')}".replace(os.path.realpath(repo), "/repo").replace(repo.rstrip("/"), "/repo"))
want = set(base["stable_pass"])
missing = sorted(want - passed)
print(f"baseline stable_pass={len(want)} passed_now={len(passed)} missing={len(missing)}")
for m in missing[:20]:
    print("  MISSING", m)
sys.exit(1 if missing else 0)
