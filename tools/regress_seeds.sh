#!/bin/sh
# regress_seeds.sh <worktree> <ids...> : run every stored seed against its property's quick check in a scratch worktree of /repo HEAD
W="$1"; shift
H=$(git -C /repo rev-parse HEAD)
git -C "$W" checkout -q -- . ; git -C "$W" checkout -q --detach "$H"
for id in "$@"; do
  d=/verif/seeded/$id
  p=$d/patch.diff; [ -f $d/patch_ported.diff ] && p=$d/patch_ported.diff
  prop=${id%%-*}
  if ! git -C "$W" apply --check "$p" 2>/dev/null; then echo "$id NEEDS_PORT"; continue; fi
  r=$(/verif/tools/try_seed_wt.sh "$W" "$p" $prop 2>&1 | tail -1)
  echo "$id $r"
done
