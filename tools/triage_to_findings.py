#!/usr/bin/env python3
"""triage_to_findings.py <property> <triage-output> : turn the greedy feature cover printed by VERIF_TRIAGE=1 into
`finding:` lines (printed to stdout, to be reviewed and pasted into KNOWN_FINDINGS.txt by hand — never used at check time)."""
import re
import sys

prop, path = sys.argv[1], sys.argv[2]
texts = dict(a.split("=", 1) for a in sys.argv[3:])
clause = None
for line in open(path):
    m = re.match(r"#### clause (\S+):", line)
    if m:
        clause = m.group(1)
        continue
    m = re.match(r"\s+([0-9.]+)\s+(\d+)/\s*(\d+)\s+(\S+)\s+e\.g\. (.*?) :: (.*)$", line)
    if m and clause:
        ratio, c, tot, feat, eg, det = m.groups()
        eg = eg.strip('"').replace('\\n', ' ').replace('\\"', '"')[:200]
        print(f"finding: property={prop} sig={clause}|{feat} :: {texts.get(clause, clause)} (e.g. `{eg.strip()}`: {det.strip()[:120]})")
