#!/bin/sh
# process_round.sh <worktree-prefix e.g. /tmp/w3-> : confirm every SEED1/SEED2 and run the property's quick check against it
PFX="$1"; shift
LIST="${*:-C01 C02 C03 C04 C05 C06 C07 C08 C09 C10 C11 C12 C13 C14 C15 C16 C17 C18 C19}"
for p in $LIST; do
  for i in 1 2; do
    s="$PFX$p/SEED$i"
    [ -f "$s/patch.diff" ] || { echo "$p-SEED$i MISSING"; continue; }
    t=$(grep -c '^diff.*tests/' "$s/patch.diff")
    c=$(/verif/tools/confirm_seed.sh "$s" 2>&1 | tail -1)
    d=$(/verif/tools/try_seed.sh "$s/patch.diff" $p 2>&1 | tail -1)
    echo "$p-SEED$i tests_edits=$t | $c | $d"
  done
done
