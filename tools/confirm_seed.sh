#!/bin/sh
# confirm_seed.sh <seed_dir with patch.diff + demo.py>
# In a scratch worktree of /repo (outside /repo and /verif): demo passes without the patch, fails with it,
# and the repository's own suite keeps its baseline pass set with the patch applied.
set -u
SEED="$1"
WT="/tmp/confirm-$$"
git -C /repo worktree add -q "$WT" HEAD || exit 2
cd "$WT" || exit 2
mkdir -p "$WT/SEEDCONF" && cp -r "$SEED"/. "$WT/SEEDCONF/"
SEEDRUN="$WT/SEEDCONF"
echo "== demo WITHOUT patch"
( cd "$WT" && PYTHONPATH="$WT" timeout 600 /venv/bin/python "$SEEDRUN/demo.py" >/tmp/confirm-$$.out 2>&1 ); A=$?
tail -3 /tmp/confirm-$$.out; echo "exit=$A"
git apply "$SEEDRUN/patch.diff" || { echo "PATCH DOES NOT APPLY"; cd /; git -C /repo worktree remove --force "$WT"; exit 3; }
echo "== demo WITH patch"
( cd "$WT" && PYTHONPATH="$WT" timeout 600 /venv/bin/python "$SEEDRUN/demo.py" >/tmp/confirm-$$.out 2>&1 ); B=$?
tail -3 /tmp/confirm-$$.out; echo "exit=$B"
echo "== repository suite WITH patch"
python3 /verif/tools/baseline_check.py "$WT"; C=$?
cd /
git -C /repo worktree remove --force "$WT"
rm -f /tmp/confirm-$$.out
echo "SUMMARY demo_without=$A demo_with=$B suite=$C"
[ "$A" = 0 ] && [ "$B" != 0 ] && [ "$C" = 0 ]
