#!/bin/sh
# try_seed.sh <patch.diff> <check ids...> : apply the patch to /repo, run the quick checks, undo the patch.
set -u
P="$1"; shift
git -C /repo status --porcelain | grep -q . && { echo "/repo not clean"; exit 2; }
git -C /repo apply "$P" || { echo "patch does not apply"; exit 3; }
RC=0
export VERIF_SCRATCH_OUT="/dev/shm/verif-seedout-$$"
for c in "$@"; do
  OUT=$(cd /verif && ./check "$c" --tier "${TIER:-quick}" 2>&1 | grep -v WARNING | grep "^\[C\|^VIOLATION\|clause=" | cut -c1-330 | head -12)
  echo "$OUT"
  echo "$OUT" | grep -q "^VIOLATION" && RC=1
done
git -C /repo checkout -- .
rm -rf "$VERIF_SCRATCH_OUT"
echo "DETECTED=$RC"
