#!/usr/bin/env python3
"""Regenerate /verif/MANIFEST.json from the table below (single source of truth)."""
import json, os, subprocess, sys

ROOT = os.path.dirname(os.path.dirname(os.path.abspath(__file__)))
ALL = [f"C{i:02d}" for i in range(1, 20)]

CHECKS = {
    "C01": dict(
        category="exploration",
        text="Bounded-exhaustive exploration: every operation of a selection grammar over the schema family K (all selection kinds singly and in pairs, "
             "70 wrapper-shape fields) x every response in the choice tree of a graphql-core reference executor (null at every nullable position, list length 1/0/2, "
             "every runtime type) within a deviation bound x directive-variable assignments x the 8 snake/sync/OpenTelemetry configurations on the single-item "
             "sub-corpus; the real generated method is driven through MockTransport and the returned object compared with the response.",
        note="Trusted: graphql-core execution/validation as reference semantics, pydantic, httpx MockTransport. Schemas are the family K, not all schemas; responses within deviation bound 2 (quick) / 3 (thorough).",
        technique="bounded-exhaustive input enumeration + choice-point (deviation-bounded DFS) exploration of reference-executor answers against the real generated client",
        design="§3 C01",
    ),
    "C02": dict(
        category="exploration",
        text="Bounded-exhaustive enumeration of authored documents (operation grammar over K, 22 string-literal classes x 6 placements and all literal pairs, all fragment DAGs up to 3/4 fragments "
             "x type assignments x root configurations, with and without ExtractOperationsPlugin); the request actually sent by each generated method is captured and compared "
             "AST-wise with the authored operation plus its reachable fragment closure, and validated with the full rule set.",
        note="Trusted: graphql-core parser/validator/ast_to_dict. String contents are covered by literal classes, not all strings.",
        technique="bounded-exhaustive input enumeration with a translation-validation oracle (sent AST vs authored AST) on the real generated client",
        design="§3 C02",
    ),
    "C05": dict(
        category="exploration",
        text="For every operation of the single-item grammar corpus and the 70 wrapper-shape fields and every explored conformant response, every single-point corruption "
             "(null, key removed, other JSON kind, other __typename) is validated with the generated model; the statement's four clauses decide which must be rejected. "
             "Converse: every visited model field's annotation is compared with an independent image of its GraphQL type.",
        note="Trusted: graphql-core, pydantic. Lax scalar coercions documented by pydantic are excluded as the statement does not list them.",
        technique="exhaustive single-point fault enumeration over enumerated conformant responses against the real generated models",
        design="§3 C05",
    ),
    "C11": dict(
        category="model_checking",
        text="Inputs: every variables tree up to 4/5 nodes (leaves int/str/None/enum/datetime/Upload1/Upload2/UNSET, containers list/dict/generated-style model, one Upload referenced twice) "
             "x kwargs x 6 client/tracer variants, captured httpx.Request compared with a reference wire-format model and across clients. Schedules: every interleaving of 2 concurrent "
             "execute() calls on one async client under a virtual event loop (3 calls: deviation bound 2), and every 2-thread schedule with <=2 (quick) / <=3 (thorough) preemptions of the sync clients "
             "under a sys.settrace baton scheduler whose scheduling points are the lines touching shared state; each call's request and result must equal its solo execution.",
        note="Trusted: httpx MockTransport, email multipart parser. Scheduling points: lines of the bundled sync clients that access self attributes or mutable module globals (local-only lines commute); httpx internals atomic. A free-running threaded pass of the same bodies is also executed.",
        technique="bounded-exhaustive input enumeration + stateless exploration of all task interleavings (virtual asyncio loop) and preemption-bounded thread schedules (baton scheduler) on the real clients",
        design="§3 C11",
    ),
    "C12": dict(
        category="exploration",
        text="Complete enumeration of the finite decision table: every status 100..599 x 24 body classes x the four bundled clients "
             "(get_data), and the generated method for 8 client/tracer configurations, compared cell by cell with a reference decision "
             "function written from the statement. The space is finite and small, so exhaustive enumeration decides it.",
        note="Trusted: httpx.Response (is_success, json()), pydantic model_validate as the definition of 'validated model'. errors is spec-shaped as the statement restricts.",
        technique="exhaustive enumeration of the status x body-class x client decision table against a reference decision function",
        design="§3 C12",
    ),
}

CHECKS["C13"] = dict(
    category="model_checking",
    text="TLA+ model of the client side of graphql-transport-ws (written from the statement) checked by TLC for all server frame sequences up to N=5 (quick) / 7 (thorough) over an 11-frame alphabet plus socket close, "
         "7 invariants; the complete reachable state set (one state per frame sequence, via a history variable) is dumped and EVERY state is replayed against 6 implementation variants "
         "(bundled async client, OpenTelemetry without/with stub/no-op tracer, generated subscription method plain and OpenTelemetry) through a scripted fake connection; configuration product "
         "(init payload, headers, origin, variables with UNSET/models) on short sequences; the fake is bound to the real websockets library by loopback scripts.",
    note="Trusted: TLC, the scripted fake connection (bound to websockets 17.1 by 4 loopback scripts with the connect keyword translated). Only the installed websockets version can be tried.",
    technique="explicit-state model checking (TLC) of a protocol model + replay of every model state/trace against the implementation",
    design="§3 C13",
)

CHECKS["C18"] = dict(
    category="exploration",
    text="String phase: ALL GraphQL names over the reduced alphabet {a,b,A,B,_,1} up to length 6 (quick) / 7 (thorough) plus the reserved-name catalogue (keywords, soft keywords, public pydantic "
         "BaseModel attributes, Enum-reserved names, method locals) through the real mapping function with the flag sets of each call site x snake on/off, checking the laws (identifier, not keyword, "
         "not a pydantic attribute, deterministic, idempotent, letters/digits kept in order). Generator phase: every pair the mapping merges (names up to length 3/4 + catalogue) in each of 5 scopes and "
         "every catalogue name alone in 6 scopes through the real generator: refusal with a CodeGenException or both names usable.",
    note="Trusted: Python's str.isidentifier/keyword, pydantic. The reduced alphabet stands for the character classes of GraphQL names.",
    technique="exhaustive enumeration of all strings up to a length bound over a reduced alphabet + exhaustive colliding-pair enumeration through the real generator",
    design="§3 C18",
)

CHECKS["C03"] = dict(
    category="exploration",
    text="Every variable definition over schema I (9 named types x 14 wrapper shapes, with/without default), reserved / clashing variable names and a multi-variable operation x every value of the "
         "type-derived menu (every enum member, lists of length 0/1/2 with null items, input objects with subsets of optional fields set / None / unset, depth 2, explicit None, omitted) "
         "x sync/async x snake on/off; the real generated method is called through MockTransport and the captured variables are judged by graphql-core coercion and a recording resolver.",
    note="Trusted: graphql-core get_variable_values/execute as reference coercion, harness reference serialisation (ref_wire, ~15 lines).",
    technique="bounded-exhaustive enumeration of variable definitions x argument values against the real generated client with a reference executor",
    design="§3 C03",
)
CHECKS["C06"] = dict(
    category="exploration",
    text="One input type per (8 named kinds x 14 wrapper shapes), per default literal kind (32), per reserved/cased field name (31), nested and recursive inputs; every menu value accepted by graphql-core "
         "coerce_input_value is built by GraphQL names and by Python names and sent through the client; missing required fields must be refused; defaults read back graphql-core's coerced default and the "
         "recording resolver sees that default.",
    note="Trusted: graphql-core coerce_input_value / default_value as the reference, pydantic.",
    technique="bounded-exhaustive enumeration of input types x schema-valid values against the real generated models with graphql-core input coercion as reference",
    design="§3 C06",
)
CHECKS["C07"] = dict(
    category="exploration",
    text="Scalar configuration {type only, +parse, +serialize, +both} x import style {relative, absolute dotted, deprecated import key} x positions (result field in 14 wrapper shapes, nested object, "
         "fragment mixin/unpacked, variable in 14 shapes, input field in 14 shapes, nested input) x executor responses (null/length deviations) / argument menus; the call log of instrumented "
         "parse/serialize functions is compared with the multiset of non-null occurrences.",
    note="Trusted: graphql-core reference executor, the instrumented scalar module supplied through files_to_include.",
    technique="bounded-exhaustive enumeration of scalar positions x configurations with call-log oracle on the real generated client",
    design="§3 C07",
)

CHECKS["C04"] = dict(
    category="exploration",
    text="Full product of the six boolean options (64) x three input sets (result-heavy K with fragments/unions/directives, input/mutation/subscription/upload-heavy B with custom root types and recursive inputs, "
         "B with configured custom scalars + files_to_include), operation sets of size 0/1/2/all, every single deviation of each non-boolean option on three bases (incl. each colliding module name), mixins, "
         "custom base client, and every shape of the four documented refusals; each case generated with the real entry point, every file parsed, every module imported, every pydantic model checked complete "
         "with resolvable annotations, __init__ imports vs __all__, reported file list vs directory listing.",
    note="Trusted: CPython ast/importlib, pydantic model_rebuild. Reserved names in every naming role are enumerated by C18's generator phase rather than here.",
    technique="exhaustive enumeration of the boolean configuration product and all single deviations of the other options through the real generator with load-time oracles",
    design="§3 C04",
)

CHECKS["C08"] = dict(
    category="exploration",
    text="All fragment DAGs over 2-3 (quick) / 2-4 (thorough) fragments x type conditions (object, two interfaces, union) x root configurations x every order of the definitions in the queries file, "
         "each also with reverse-alphabetical fragment names; operation sets where one fragment is spread on its own type and unpacked elsewhere; 10 @mixin placements. Each package is generated, imported, "
         "driven on explored responses: isinstance of the fragment class at every demanded spread, fragment class validates the sub-payload, class present in fragments module, mixin is a direct base of exactly the expected classes.",
    note="Trusted: graphql-core field collection for locating spreads, reference executor. Literal reading of the statement for where the isinstance demand applies (see assumptions in evidence).",
    technique="exhaustive enumeration of fragment dependency graphs x definition orders through the real generator with structural (MRO / isinstance) oracles",
    design="§3 C08",
)

CHECKS["C09"] = dict(
    category="exploration",
    text="EVERY directed graph of input->input references on 2 and 3 input types (self loops and cycles included: 16 + 512 graphs) with enums attached to inputs, results, nested results, variables, "
         "fragments (spread and unspread) or nothing x operation sets x the four flag combinations; each package is compared with a reference closure computed with graphql-core TypeInfo "
         "(required <= present <= allowed), with the unpruned package class by class (source text), and by behaviour (request sent, accepted result) per operation.",
    note="Trusted: graphql-core TypeInfo/visit for the reference closure, ast.get_source_segment for class texts.",
    technique="exhaustive enumeration of all dependency graphs up to 3 nodes x flag combinations through the real generator with a reference reachability closure",
    design="§3 C09",
)

CHECKS["C10"] = dict(
    category="model_checking",
    text="The nondeterminism named by the statement is owned: an import hook rewrites every set display / comprehension / set() call in ariadne_codegen.* (33 sites) so that each set iteration is a choice point "
         "(natural order = choice 0; all permutations up to size 3, reversal + adjacent transpositions + rotations beyond), and Path.glob order likewise. For 9 stress inputs (fragment fan with independent "
         "dependencies, many enums/unions/scalars, each bundled plugin, inputs split over nested directories, custom operations, graphqlschema .py/.graphql) every run with <=1 (quick) / <=2 (thorough) deviations is "
         "executed in a fresh forked process, for a fresh directory and for regeneration over a previous generation, and the sha256 of every file is compared with the baseline. Un-instrumented subprocess runs of the "
         "real CLI under several PYTHONHASHSEED values and both file creation orders are compared too (and must be among the explored outputs).",
    note="Trusted: the import-hook rewriting (validated by the all-default run equalling the un-instrumented PYTHONHASHSEED=0 subprocess run), sha256. Timestamp comment mode excluded as the statement says.",
    technique="stateless exploration of owned set-iteration / directory-listing order choice points (deviation-bounded, exhaustive within bound) on the real generator, validated against real hash-seed runs",
    design="§3 C10",
)

CHECKS["C17"] = dict(
    category="fault_enumeration",
    text="Through the real command (click CliRunner on main, forked process, cwd = project): every single violation of the documented configuration constraints (paths, 8 name options x 6 bad names, comment mode, "
         "scalar without type, unset header variable, missing section, base client class, target file type), invalid syntax in schema / queries / one file of a directory, 23 schema mutations confirmed invalid by "
         "graphql-core, one invalid operation per specified validation rule (25 rules, each confirmed by running that rule alone) x pre-existing target states {absent, empty dir, previous generation, foreign file}; "
         "oracle: exit code, exception class and message, byte+mtime snapshot of the target. Positive: valid configurations (unknown keys, legacy section, no strategy argument) accepted; settings readers do not mutate the dict.",
    note="Trusted: graphql-core validate_schema / specified_rules as the definition of invalid input; click CliRunner.",
    technique="exhaustive single-fault enumeration over configuration constraints, schema-validity classes and validation rules x pre-existing directory states through the real command",
    design="§3 C17",
)

CHECKS["C16"] = dict(
    category="translation_validation",
    text="18 schema feature components (every named type kind, interface chains, custom roots, defaults of every literal kind incl. nested objects/enums/null/large floats/quotes/block strings, multi-line descriptions, "
         "deprecations, repeatable directives with every location, specifiedBy, schema description, 14 wrapper shapes, keyword names) taken singly, in all pairs and all together x target formats .py/.graphql/.gql x variable names "
         "{default, custom, soft keywords} x source {SDL, introspection served in-process by graphql-core}; the generated module is compiled and executed, the resulting schema compared with the source by print_schema and by "
         "an independent structural comparer (types, field/argument order, defaults with ==, descriptions, deprecations, interfaces, members, enum values, directives, roots).",
    note="Trusted: graphql-core build_schema/print_schema/introspection execution as the reference; the structural comparer (~100 lines) guards against print_schema normalising a difference away.",
    technique="translation validation of every generated schema module/file against its source over an enumerated feature-combination space",
    design="§3 C16",
)

CHECKS["C19"] = dict(
    category="exploration",
    text="ALL 122 set partitions of a 6-definition schema (interface, enum, input with defaults of several kinds, two objects, Query+Mutation) into <= 3 files, every block placed in root / sub-directory / nested sub-directory "
         "with the three extensions (one rotation per partition quick, all three thorough), the single-file source and the introspection source served in-process by graphql-core, for two operation sets; per-class comparison of "
         "result models, enums, fragments, method signatures, operation strings, and input fields' required/default; 15 classes of introspection failure must surface as IntrospectionError; 9 header x TLS-flag combinations "
         "checked against the recorded httpx.post call.",
    note="Trusted: graphql-core introspection execution as the remote server; httpx.post is replaced as seen from ariadne_codegen.schema (TLS itself not exercised).",
    technique="exhaustive enumeration of all set partitions of the schema definitions into files + all introspection answer classes, differential comparison per class against the single-file source",
    design="§3 C19",
)

CHECKS["C15"] = dict(
    category="exploration",
    text="Six input packages (one / several top-level fields, union results, fragments mixin+unpacked, custom scalar with parse/serialize, arguments + mutation + subscription) x every subset of the five plugins "
         "{ShorterResults, ExtractOperations, ClientForwardRefs, NoReimports, identity} in canonical order plus every ordered pair (quick) / every ordered subset, 326 (thorough); each plugged package is imported and every "
         "non-subscription method driven on all reference responses with <= 1 deviation, compared with the unplugged package: requests, accept/reject, results (ShorterResults: exactly the single top-level field), "
         "type hints (ClientForwardRefs), byte identity (identity, NoReimports except __init__); for every hook of Plugin two tagging plugins in both orders.",
    note="Trusted: reference executor, typing.get_type_hints with the package namespace. Subscription frame behaviour is C13's subject.",
    technique="exhaustive enumeration of plugin subsets and orders, differential comparison against the unplugged package on enumerated responses",
    design="§3 C15",
)

CHECKS["C14"] = dict(
    category="model_checking",
    text="Expression phase: every builder expression tree from a grammar over a schema with camelCase fields/arguments, list / non-null / enum / input / custom-scalar arguments, interface and union results (8 roots x argument menus x "
         "all single and paired sub-field items per level incl. aliases, method fields with arguments, nested arguments, .on() fragments; one and two top-level fields; sync and async), each with a hand-written equivalent GraphQL "
         "text: the sent document must validate, declare each variable with the exact type of the argument it feeds, and give the reference executor the same response shape and recorded resolver arguments. History phase: "
         "explicit-state BFS over sequences (depth 2 quick / 3 thorough) of 10 builder expressions touching shared class-level field objects; states are canonical snapshots of those objects, every (state, expression) probe is "
         "rebuilt in a fresh process and must build the same document as in the initial state.",
    note="Trusted: graphql-core validate/TypeInfo/execute as reference; the hand-written equivalent texts. State canonicalisation keeps every attribute the emitted document can depend on.",
    technique="bounded-exhaustive enumeration of builder expression trees + explicit-state BFS over operation histories with canonical state hashing, on the real generated builder",
    design="§3 C14",
)

# families added after the seeded rounds (DESIGN §7.1, §7.5)
ADDENDA = {
    "C01": "Further input families: schema family K2 incl. its typed spread matrix (position type x fragment type x inner type in five shapes, two-operation documents sharing a fragment), "
           "fragment DAGs with permuted names and subset spreads, configured custom scalars at every result position, pruning options, the repository's own fixture projects.",
    "C02": "Further families: ordered operation pairs each with its own fragments, variables named like method locals incl. subscriptions, tracer variants on the websocket path.",
    "C03": "Also subscriptions (websocket capture), configured scalars with serialize at input-field / list positions and in several variables and operations, tracer variants of the OpenTelemetry clients. Round 6: a nullable top-level variable of a configured scalar called with present values incl. a falsy one; input FIELDS of every wrapper shape (one input type per shape x Int / nested input / enum).",
    "C04": "Also: every 3-fragment DAG x name permutation x subset spread, a member-name catalogue derived from keyword.kwlist and dir(pydantic.BaseModel) incl. camelCase/PascalCase spellings in four positions, "
           "a configured scalar at exactly one position of the package, custom operations with renamed modules. Round 6: non-root object / interface fields with input-object and enum arguments under renamed modules.",
    "C05": "Also schema family K2 with the typed spread matrix and shared-fragment two-operation documents; when the sent document is unusable the authored operation (after the documented __typename rewrite) answers.",
    "C06": "Also the full member-name catalogue as field names, defaults on fields contributed by `extend input`, two scalars of one Python type with their own serializers. Round 6: defaults naming Enum attributes (name, value).",
    "C07": "Also two scalars sharing one Python type, a scalar whose class is its own parser, scalars reachable only through nested inputs under include_all_inputs=false, top-level scalar fields with and without ShorterResults. Round 6: the second value of every scalar menu is a valid FALSY value.",
    "C08": "Also the K2 typed spread matrix, subset spreads, inline fragments on super-types as demand scopes, every sequence (<=3) of directives around @mixin on four kinds of sites.",
    "C13": "Frames outside the model's alphabet (null data, foreign ids, payload variants, JSON non-objects, bytes) are decided differentially: all sequences of <=2 such frames x variable configurations, every OpenTelemetry variant against the plain client. Round 6: two subscriptions alive at once on ONE client object, every schedule of the two tasks within a deviation bound (3 quick / 4 thorough) on a virtual asyncio loop, 25 script pairs x 7 variants, each iterator compared with the model's expectation for its own frame sequence.",
    "C14": "Also schema-derived expressions: every catalogue / harvested identifier (names bound anywhere in the generated code) as attribute field, method field, root field, argument and root argument; every directed reference graph on 3 object types x field orders. Round 6: an argument-VALUE family (falsy values, explicit nulls inside input objects, serialized custom scalars) at root fields, nested method fields and mutations.",
    "C15": "Also the single top-level field in every type kind x arrangements of operations (incl. root fragments, custom operations), uploads, module-form plugin entries. Round 6: a root-level __typename next to the single field, plain / aliased / through a root fragment.",
    "C16": "Also description text x place of the description, every order of implemented interfaces, target extension spellings, both schema sources configured at once.",
    "C17": "Constraint violations are repeated under base configurations (custom operations, sync, plugin); immutability of the configuration is checked for the settings readers and for the whole command. Round 6: plugins whose process_schema hides or adds fields, with operations valid for exactly one of the two schemas.",
    "C18": "Also operation names equal to every module stem of the package (computed per configuration), wire names through all four base clients, aliased __typename and subscription variables as scopes. Round 6: six document shapes around an operation named like a module (which optional modules exist varies), object-valued response keys as a naming scope.",
    "C19": "Also odd file / directory names (dot-prefixed, glob characters, directory named like a file), header value x environment content menu, configured scalars per source, every status class with a well-formed body, both sources at once. Round 6: type system extensions (extend input / enum / type) against the hand-merged schema for every source, environment variable names with '-', '.', a leading digit or non-ASCII letters.",
}
ADDENDA["C09"] = "Round 6: the only variable reaching the last input wrapped in every list / non-null shape."
ADDENDA["C10"] = "Round 6: repeated and many @mixin directives on fields and fragment definitions as stress input."
ADDENDA["C11"] = ("Round 6: a constructor family (headers= / http_client= in every combination, two clients sharing one http client, the client building its own http client) and response bodies "
                  "declared JSON that are not GraphQL responses, both under six-variant agreement.")
ADDENDA["C12"] = "Round 6: falsy-member families (error objects with empty / falsy members alone, before and after ordinary errors; falsy data values with and without errors)."
ROUND7 = {
    "C01": "Round 7: a fragment-overlap family (a spread next to direct selections of keys the fragment also selects) and a non-null abstract field with conditional type-specific selections.",
    "C04": "Round 7: files_to_include entries that are not Python files.",
    "C05": "Round 7: the fragment-overlap family; leaf fields (incl. leading-underscore names) with snake-casing off.",
    "C06": "Round 7: explicit-null defaults of list-typed fields and inner lists.",
    "C08": "Round 7: a spread-order family (two fragments and the operation spreading ordered subsets of the same two leaf fragments in every combination of orders x three namings).",
    "C09": "Round 7: type names whose case-sensitive / case-insensitive / snake-case orders differ; the behaviour harness builds arguments from the schema.",
    "C10": "Round 7: interface field conflicts under custom operations; absolute imports of the generated package next to third-party imports with the target inside and outside the working directory.",
    "C14": "Round 7: the explicit-state search over histories no longer trusts its state abstraction below depth 2 (every history of length < 2 is expanded), the state snapshot covers every module / class level container, cache and the client's attributes; same-argument history pairs; nested union / interface fields with arguments.",
    "C17": "Round 7: comment modes of other TOML types; every misuse of the codegen-only @mixin directive.",
    "C19": "Round 7: a transport fault on the first introspection request (every request sent carries the configured headers and TLS flag); URLs that httpx refuses, parsed by the real URL parser.",
}
ROUND8 = {
    "C10": "Round 8: colliding-name stress inputs; the regenerate history is also run with two REAL processes (first run into a fresh directory, second run over it); the thorough tier squares the deviation bound per input only where the one-deviation space has <= 130 runs and records the bound completed per input.",
    "C14": "Round 8: the history search also runs for the OpenTelemetry clients (depth 1) and includes input-object arguments.",
    "C16": "Round 8: long description texts; the real command run under non-UTF-8 process locales for non-ASCII schemas.",
}
for _k, _v in ROUND8.items():
    ROUND7[_k] = (ROUND7.get(_k, "") + " " + _v).strip()
for _k, _v in ROUND7.items():
    ADDENDA[_k] = (ADDENDA.get(_k, "") + " " + _v).strip()
for _k, _v in ADDENDA.items():
    CHECKS[_k]["text"] = CHECKS[_k]["text"] + " " + _v

PENDING_REASON = "check not built yet in this round (work in progress, see DESIGN.md §6)"
NOT_APPLICABLE = {}


def main():
    checks = []
    for pid in ALL:
        if pid not in CHECKS:
            continue
        c = CHECKS[pid]
        checks.append({
            "property_id": pid,
            "quick_cmd": f"./check {pid} --tier quick",
            "thorough_cmd": f"./check {pid} --tier thorough",
            "evidence_file": f"/verif/evidence/{pid}.json",
            "replay_cmd_template": f"./check {pid} --replay {{path}}",
            "engine": "mc",
            "level_claimed": {"category": c["category"], "text": c["text"], "design_ref": c["design"]},
            "level_note": c["note"],
            "technique": c["technique"],
        })
    na = [{"property_id": p, "reason": NOT_APPLICABLE.get(p, PENDING_REASON)} for p in ALL if p not in CHECKS]
    m = {
        "version": 1,
        "setup_cmd": "cd /verif && ./setup.sh",
        "hooks": {
            "guard": "ARIADNE_CODEGEN_VERIF",
            "enable": "no source hooks exist: all seams are harness-side (MockTransport, import hook, fake connection); checks import /repo's working tree through /venv's editable install",
            "baseline_off_cmd": "python3 /verif/tools/baseline_check.py /repo",
            "source_commits": [],
            "add_only": True,
        },
        "engines": [{
            "name": "mc",
            "path": "/verif/mc",
            "serves_properties": [c["property_id"] for c in checks],
            "kind_free_text": "hand-written bounded-exhaustive explorer for Python: choice-point DFS with deviation bound (mc/explorer.py), "
                              "fork-per-case zygote pool (mc/pool.py), reference GraphQL executor driven by choices (mc/refexec.py), "
                              "virtual asyncio loop / thread baton schedulers, TLC for the subscription protocol model",
        }],
        "checks": checks,
        "not_applicable": na,
        "notes": "All checks: ./check <id> --tier quick|thorough; evidence in /verif/evidence/<id>.json; known findings in /verif/KNOWN_FINDINGS.txt; seeded breaking changes in /verif/seeded/.",
    }
    path = os.path.join(ROOT, "MANIFEST.json")
    json.dump(m, open(path, "w"), indent=1)
    open(path, "a").write("\n")
    r = subprocess.run(["python3-vt", "-c", "import json,jsonschema;jsonschema.validate(json.load(open('%s')),json.load(open('/root/.vp/MANIFEST.schema.json')))" % path])
    print("manifest valid" if r.returncode == 0 else "MANIFEST INVALID")
    sys.exit(r.returncode)


if __name__ == "__main__":
    main()
