"""C17 — invalid input is rejected up front, with a typed error and no side effects.

Through the real command (click CliRunner on ariadne_codegen.main.main, in a forked process, cwd = project directory):
every single violation of a documented configuration constraint, invalid GraphQL syntax in schema / queries / one file of a
directory, every class of invalid schema from a mutation alphabet (confirmed invalid by graphql-core), one invalid
operation per specified validation rule (confirmed by running that rule alone) x pre-existing target states {absent,
empty directory, previous generation, foreign file}.  Oracle: non-zero exit, exception of the corresponding
ariadne_codegen.exceptions class naming the offending item, target tree snapshot (paths, bytes, mtimes) unchanged.
Positive side: valid configurations (incl. unknown keys, no strategy argument) are accepted and settings readers do not
mutate the configuration dict.
"""
from __future__ import annotations

import copy
import json
import os
import shutil

from mc import genpkg, pool
from mc.report import Report

SCHEMA_V = """
directive @tag(name: String!) repeatable on FIELD_DEFINITION | OBJECT
interface Node { id: ID! }
enum Kind { A B }
input Filter { name: String kind: Kind = A nested: Filter }
type User implements Node { id: ID! name: String kind: Kind friend: User }
type Admin implements Node { id: ID! level: Int! }
union U = User | Admin
type Query { user(id: ID!): User users(first: Int = 10, filter: Filter): [User!]! node: Node u: U }
type Mutation { rename(id: ID!, name: String!): User }
type Subscription { tick: Int! tock: Int! }
"""
VALID_QUERY = "query GetUser($id: ID!) { user(id: $id) { id name } }\n"

BAD_NAMES = ["1abc", "a-b", "a b", "", "a.b", "class"]
STATES = ["absent", "empty_dir", "previous_generation", "foreign_file"]

# (label, SDL, ...) every entry must be rejected by graphql-core's own schema validation (checked at run time)
INVALID_SCHEMAS = {
    "object_without_fields": SCHEMA_V + "\ntype Empty\n",
    "interface_field_missing": SCHEMA_V.replace("type Admin implements Node { id: ID! level: Int! }", "type Admin implements Node { level: Int! }"),
    "interface_field_wrong_type": SCHEMA_V.replace("type Admin implements Node { id: ID! level: Int! }", "type Admin implements Node { id: String level: Int! }"),
    "duplicate_enum_value": SCHEMA_V.replace("enum Kind { A B }", "enum Kind { A B A }"),
    "enum_without_values": SCHEMA_V + "\nenum Nothing\n",
    "dunder_field_name": SCHEMA_V.replace("type Admin implements Node { id: ID! level: Int! }", "type Admin implements Node { id: ID! level: Int! __secret: Int }"),
    "unknown_type_reference": SCHEMA_V.replace("friend: User", "friend: Ghost"),
    "duplicate_type": SCHEMA_V + "\ntype User { id: ID! }\n",
    "duplicate_field": SCHEMA_V.replace("type Admin implements Node { id: ID! level: Int! }", "type Admin implements Node { id: ID! level: Int! level: Int! }"),
    "union_of_non_object": SCHEMA_V.replace("union U = User | Admin", "union U = User | Kind"),
    "union_duplicate_member": SCHEMA_V.replace("union U = User | Admin", "union U = User | Admin | User"),
    "empty_union": SCHEMA_V + "\nunion Nobody\n",
    "output_type_as_input_field": SCHEMA_V.replace("input Filter { name: String", "input Filter { who: User name: String"),
    "input_type_as_output_field": SCHEMA_V.replace("type Admin implements Node { id: ID! level: Int! }", "type Admin implements Node { id: ID! level: Int! f: Filter }"),
    "duplicate_argument": SCHEMA_V.replace("user(id: ID!): User", "user(id: ID!, id: ID!): User"),
    "interface_implements_itself": SCHEMA_V.replace("interface Node { id: ID! }", "interface Node implements Node { id: ID! }"),
    "no_query_root": "type Mutation { a: Int }\ntype Other { b: Int }\n",
    "unknown_directive_used": SCHEMA_V.replace("type Admin implements Node", "type Admin implements Node @nope"),
    "directive_missing_required_arg": SCHEMA_V.replace("type Admin implements Node", "type Admin implements Node @tag"),
    "input_nonnull_cycle": SCHEMA_V + "\ninput Loop { self: Loop! }\n",
    "implements_non_interface": SCHEMA_V.replace("type Admin implements Node", "type Admin implements Node & User"),
    "root_type_not_object": "schema { query: Kind }\nenum Kind { A }\n",
    "duplicate_directive_definition": SCHEMA_V + "\ndirective @tag(name: String!) on OBJECT\n",
}

# (rule name, queries text) — each must be rejected by exactly that rule run alone (checked at run time)
INVALID_OPERATIONS = {
    "ExecutableDefinitionsRule": VALID_QUERY + "type Extra { a: Int }\n",
    "UniqueOperationNamesRule": VALID_QUERY + VALID_QUERY,
    "LoneAnonymousOperationRule": VALID_QUERY + "{ node { id } }\n",
    "SingleFieldSubscriptionsRule": "subscription S { tick tock }\n",
    "KnownTypeNamesRule": "query Q($a: Nope) { users(first: 1) { id } }\n",
    "FragmentsOnCompositeTypesRule": "query Q { user(id: 1) { ... on String { id } } }\n",
    "VariablesAreInputTypesRule": "query Q($a: User) { node { id } }\n",
    "ScalarLeafsRule": "query Q { user(id: 1) }\n",
    "FieldsOnCorrectTypeRule": "query Q { user(id: 1) { nope } }\n",
    "UniqueFragmentNamesRule": "query Q { node { ...F } }\nfragment F on Node { id }\nfragment F on Node { id }\n",
    "KnownFragmentNamesRule": "query Q { node { ...Missing } }\n",
    "PossibleFragmentSpreadsRule": "query Q { user(id: 1) { ... on Admin { level } } }\n",
    "NoFragmentCyclesRule": "query Q { node { ...F } }\nfragment F on Node { id ...F }\n",
    "UniqueVariableNamesRule": "query Q($a: Int, $a: Int) { users(first: $a) { id } }\n",
    "NoUndefinedVariablesRule": "query Q { users(first: $nope) { id } }\n",
    "NoUnusedVariablesRule": "query Q($unused: Int) { node { id } }\n",
    "KnownDirectivesRule": "query Q { node @nope { id } }\n",
    "UniqueDirectivesPerLocationRule": "query Q { node @skip(if: true) @skip(if: false) { id } }\n",
    "KnownArgumentNamesRule": "query Q { users(nope: 1) { id } }\n",
    "UniqueArgumentNamesRule": "query Q { users(first: 1, first: 2) { id } }\n",
    "ValuesOfCorrectTypeRule": 'query Q { users(first: "x") { id } }\n',
    "ProvidedRequiredArgumentsRule": "query Q { user { id } }\n",
    "VariablesInAllowedPositionRule": "query Q($id: ID) { user(id: $id) { id } }\n",
    "OverlappingFieldsCanBeMergedRule": "query Q { user(id: 1) { x: id x: name } }\n",
    "UniqueInputFieldNamesRule": 'query Q { users(filter: {name: "a", name: "b"}) { id } }\n',
}


def build_cases(tier):
    cases = []

    def add(label, expect, *, section=None, schema=SCHEMA_V, queries=VALID_QUERY, strategy="client", names_in_msg=(), files=None, env=None,
            states=("absent", "previous_generation"), tags=(), raw_toml=None, args=None, config_file=None, decoy_pyproject=None):
        for st in states:
            cases.append(dict(label=label, expect=expect, section=section or {}, schema=schema, queries=queries, strategy=strategy, state=st,
                              names=list(names_in_msg), files=files or {}, env=env or {}, tags=set(tags) | {f"state:{st}"}, raw_toml=raw_toml, args=args,
                              config_file=config_file, decoy_pyproject=decoy_pyproject))

    IC, MC = "InvalidConfiguration", "MissingConfiguration"
    # (i) configuration constraints, under every base configuration that has its own reading path in the settings
    base_add = add
    for base_label, base in (("default", {}), ("custom_operations", {"enable_custom_operations": True}), ("sync", {"async_client": False}),
                             ("plugin", {"plugins": ["ariadne_codegen.contrib.shorter_results.ShorterResultsPlugin"]})):
        if base_label != "default" and tier == "quick" and base_label not in ("custom_operations",):
            continue

        def add(label, expect, *, section=None, strategy="client", tags=(), states=("absent", "previous_generation"), **kw):  # noqa: F811
            if base_label != "default":
                if strategy != "client" or label in ("queries_path_absent", "no_section"):
                    return  # (with custom operations the queries are optional; other strategies do not read these options)
                states = ("absent",)
            base_add(label if base_label == "default" else f"{label}+{base_label}", expect, section=dict(base, **(section or {})), strategy=strategy,
                     tags=set(tags) | ({f"base:{base_label}"} if base_label != "default" else set()), states=states, **kw)
        add("no_schema_source", IC, section={"schema_path": None}, tags={"cfg:no_schema_source"})
        add("schema_path_missing", IC, section={"schema_path": "nope.graphql"}, names_in_msg=["nope.graphql"], tags={"cfg:path"})
        add("schema_path_missing_with_remote_url", IC, section={"schema_path": "nope.graphql", "remote_schema_url": "http://127.0.0.1:1/graphql"}, names_in_msg=["nope.graphql"], tags={"cfg:path", "both_sources"})
        add("queries_path_missing", IC, section={"queries_path": "nope_q.graphql"}, names_in_msg=["nope_q.graphql"], tags={"cfg:path"})
        add("queries_path_absent", MC, section={"queries_path": None}, names_in_msg=["queries_path"], tags={"cfg:missing_key"})
        add("target_package_path_missing", IC, section={"target_package_path": "no_such_dir"}, names_in_msg=["no_such_dir"], tags={"cfg:path"}, states=("absent",))
        add("target_package_path_is_file", IC, section={"target_package_path": "schema.graphql"}, names_in_msg=["schema.graphql"], tags={"cfg:path"}, states=("absent",))
        add("base_client_file_missing", IC, section={"base_client_name": "B", "base_client_file_path": "nope.py"}, names_in_msg=["nope.py"], tags={"cfg:path"})
        add("base_client_file_is_dir", IC, section={"base_client_name": "B", "base_client_file_path": "adir"}, names_in_msg=["adir"], files={"adir/x.txt": "x"}, tags={"cfg:path"})
        add("base_client_name_without_file", IC, section={"base_client_name": "OnlyName"}, tags={"cfg:base_client_one_of_two"})
        add("base_client_file_without_name", IC, section={"base_client_file_path": "mybase.py"}, files={"mybase.py": "class Other:\n    pass\n"}, tags={"cfg:base_client_one_of_two"})
        add("base_client_class_absent", IC, section={"base_client_name": "Missing", "base_client_file_path": "mybase.py"}, names_in_msg=["Missing"], files={"mybase.py": "class Other:\n    pass\n"}, tags={"cfg:base_client_class"})
        add("files_to_include_missing", IC, section={"files_to_include": ["nope_inc.py"]}, names_in_msg=["nope_inc.py"], tags={"cfg:path"})
        add("files_to_include_is_dir", IC, section={"files_to_include": ["adir"]}, names_in_msg=["adir"], files={"adir/x.txt": "x"}, tags={"cfg:path"})
        for opt in ("target_package_name", "client_name", "client_file_name", "enums_module_name", "input_types_module_name", "fragments_module_name"):
            for bad in BAD_NAMES:
                add(f"bad_name:{opt}", IC, section={opt: bad}, names_in_msg=[bad] if bad else [], tags={f"cfg:name:{opt}", f"badname:{bad!r}"},
                    states=("absent",) if tier == "quick" and bad not in ("class", "a-b") else ("absent", "previous_generation"))
        for bad in [b for b in BAD_NAMES if b]:
            add("bad_name:base_client_name", IC, section={"base_client_name": bad, "base_client_file_path": "mybase.py"}, files={"mybase.py": f"class {bad}:\n    pass\n" if bad.isidentifier() else "class X:\n    pass\n"},
                names_in_msg=[bad], tags={"cfg:name:base_client_name", f"badname:{bad!r}"}, states=("absent",))
        add("unknown_comment_mode", IC, section={"include_comments": "sometimes"}, names_in_msg=["sometimes"], tags={"cfg:comments"})
        # values of other TOML types are not comment modes either (1 == True in Python: only real booleans are the deprecated spelling)
        for bad_mode in (1, 0, 1.0, 0.0, 2, "True", "", ["stable"]):
            add(f"unknown_comment_mode:{bad_mode!r}", IC, section={"include_comments": bad_mode}, tags={"cfg:comments", "comment_mode_other_type"}, states=("absent", "previous_generation"))
        add("scalar_without_type", MC, section={"scalars": {"Date": {"parse": "x.parse"}}}, names_in_msg=["type"], tags={"cfg:scalar"})
        add("header_env_unset", IC, section={"schema_path": None, "remote_schema_url": "http://localhost:1/graphql", "remote_schema_headers": {"Authorization": "$VERIF_UNSET_VARIABLE"}},
            names_in_msg=["VERIF_UNSET_VARIABLE"], tags={"cfg:header"})
        add("schema_path_missing_with_remote_url_gs", IC, strategy="graphqlschema", section={"schema_path": "nope.graphql", "remote_schema_url": "http://127.0.0.1:1/graphql", "target_file_path": "schema_out.py"},
            names_in_msg=["nope.graphql"], tags={"cfg:path", "both_sources"})
        add("no_section", MC, raw_toml='[tool.other]\nx = 1\n', tags={"cfg:no_section"})
        for bad, tag in (("schema_out", "missing"), ("schema_out.txt", "unknown"), ("schema_out.", "missing")):
            add(f"target_file_type_{tag}", IC, strategy="graphqlschema", section={"target_file_path": bad}, names_in_msg=[bad], tags={"cfg:target_file_type"})
        for opt in ("schema_variable_name", "type_map_variable_name"):
            for bad in BAD_NAMES:
                add(f"bad_name:{opt}", IC, strategy="graphqlschema", section={opt: bad, "target_file_path": "schema_out.py"}, names_in_msg=[bad] if bad else [],
                    tags={f"cfg:name:{opt}", f"badname:{bad!r}"}, states=("absent",))
    add = base_add
    # (ii) syntax
    SY = "InvalidGraphqlSyntax"
    add("schema_syntax", SY, schema=SCHEMA_V + "\ntype Broken {\n", names_in_msg=["schema.graphql"], states=STATES, tags={"syntax:schema"})
    add("queries_syntax", SY, queries="query Q { user(id: 1) { id }\n", names_in_msg=["queries.graphql"], states=STATES, tags={"syntax:queries"})
    add("queries_dir_one_file_syntax", SY, queries={"a.graphql": VALID_QUERY, "sub/b.gql": "query Broken { node { id }\n"}, names_in_msg=["b.gql"], states=STATES, tags={"syntax:queries_dir"})
    add("schema_dir_one_file_syntax", SY, schema={"a.graphql": SCHEMA_V, "deep/x/b.graphqls": "type Broken {\n"}, names_in_msg=["b.graphqls"], states=STATES, tags={"syntax:schema_dir"})
    add("schema_syntax_graphqlschema", SY, strategy="graphqlschema", schema=SCHEMA_V + "\ntype Broken {\n", section={"target_file_path": "schema_out.py"}, names_in_msg=["schema.graphql"], states=STATES, tags={"syntax:schema"})
    add("queries_dir_file_completed_by_next", SY, queries={"a_broken.graphql": "query Ok { node { id } }\nfragment Tail on Query", "b_valid.graphql": "{ node { id } }\n"}, names_in_msg=["a_broken.graphql"], states=STATES, tags={"syntax:queries_dir", "completed_by_next_file"})
    add("schema_dir_file_completed_by_next", SY, schema={"a.graphql": SCHEMA_V + "\nextend type Query", "b.graphql": "{ more: Int }\n"}, names_in_msg=["a.graphql"], states=STATES, tags={"syntax:schema_dir", "completed_by_next_file"})
    add("empty_queries_file", SY, queries="\n", names_in_msg=["queries.graphql"], tags={"syntax:queries"})
    # (iii) invalid schemas
    for name, sdl in INVALID_SCHEMAS.items():
        add(f"invalid_schema:{name}", "CodeGenException", schema=sdl, states=STATES if tier != "quick" else ("absent", "previous_generation"), tags={f"schema:{name}", "invalid_schema"})
        add(f"invalid_schema_gs:{name}", "CodeGenException", strategy="graphqlschema", section={"target_file_path": "schema_out.graphql"}, schema=sdl, states=("absent", "previous_generation"), tags={f"schema:{name}", "invalid_schema", "strategy:graphqlschema"})
    # (iv) invalid operations
    for rule, q in INVALID_OPERATIONS.items():
        add(f"invalid_operation:{rule}", "InvalidOperationForSchema", queries=q, states=STATES if tier != "quick" else ("absent", "previous_generation"), tags={f"rule:{rule}", "invalid_operation"})
    # operations are validated against the schema as processed by the plugins (process_schema hook), in both directions
    hide, addf = "mc.testplugins.HideInternalPlugin", "mc.testplugins.AddFieldPlugin"
    internal_schema = SCHEMA_V.replace("type Query {", "type Query {\n  internalNote: String\n  internalUser(id: ID!): User\n")
    add("invalid_operation:field_hidden_by_plugin", "InvalidOperationForSchema", section={"plugins": [hide]}, schema=internal_schema, queries="query GetNote { internalNote }\n",
        states=STATES, tags={"invalid_operation", "plugin_processed_schema"})
    add("invalid_operation:field_hidden_by_second_plugin", "InvalidOperationForSchema", section={"plugins": [addf, hide]}, schema=internal_schema,
        queries=VALID_QUERY + "query GetInternal($id: ID!) { addedByPlugin internalUser(id: $id) { id } }\n", states=("absent", "previous_generation"), tags={"invalid_operation", "plugin_processed_schema"})
    add("valid_operation_on_field_added_by_plugin", "ok", section={"plugins": [addf]}, queries=VALID_QUERY + "query GetAdded { addedByPlugin }\n", states=("absent", "previous_generation"),
        tags={"positive", "plugin_processed_schema"})
    add("valid_operation_with_hiding_plugin", "ok", section={"plugins": [hide]}, schema=internal_schema, states=("absent",), tags={"positive", "plugin_processed_schema"})
    add("invalid_operation:without_the_adding_plugin", "InvalidOperationForSchema", queries=VALID_QUERY + "query GetAdded { addedByPlugin }\n", states=("absent",), tags={"invalid_operation", "plugin_processed_schema"})
    # the codegen-only @mixin directive is only defined for fields and fragment definitions, with the arguments `from` and `import`
    MX = '@mixin(from: ".m", import: "M")'
    for mname, q in (("on_operation", f"query GetUser($id: ID!) {MX} {{ user(id: $id) {{ id }} }}\n"), ("on_inline_fragment", f"query GetNode {{ node {{ ... on User {MX} {{ id }} }} }}\n"),
                     ("on_fragment_spread", f"query GetUser($id: ID!) {{ user(id: $id) {{ ...F {MX} }} }}\nfragment F on User {{ id }}\n"),
                     ("unknown_argument", 'query GetUser($id: ID!) { user(id: $id) @mixin(from: ".m", import: "M", as: "Other") { id } }\n'),
                     ("on_variable_definition", f"query GetUser($id: ID! {MX}) {{ user(id: $id) {{ id }} }}\n")):
        add(f"invalid_operation:mixin_{mname}", "InvalidOperationForSchema", queries=q, states=("absent", "previous_generation"), tags={"invalid_operation", "mixin_misuse", f"mixin:{mname}"})
    # the --config option: the selected file decides, whatever a pyproject.toml lying next to it says (both strategies)
    for strat, extra in (("client", {}), ("graphqlschema", {"target_file_path": "schema_out.py"})):
        for decoy_label, decoy in (("none", None), ("invalid", "[tool.ariadne-codegen]\nschema_path = \"does_not_exist.graphql\"\nqueries_path = \"nope\"\ntarget_file_path = \"x.txt\"\n"),
                                   ("no_section", "[tool.other]\nx = 1\n"), ("valid_other", "VALID_OTHER")):
            add(f"config_option_valid:{strat}:{decoy_label}", "ok", strategy=strat, section=dict(extra), args=["--config", "custom.toml", strat], config_file="custom.toml", decoy_pyproject=decoy,
                states=("absent",), tags={"positive", "config_option", f"decoy:{decoy_label}"})
            if decoy_label in ("none", "valid_other"):
                add(f"config_option_invalid:{strat}:{decoy_label}", IC, strategy=strat, section=dict(extra, schema_path="nope.graphql"), names_in_msg=["nope.graphql"], args=["--config", "custom.toml", strat],
                    config_file="custom.toml", decoy_pyproject=decoy, states=("absent",), tags={"cfg:path", "config_option", f"decoy:{decoy_label}"})
    # target file names with several dots: the LAST extension decides
    for name, ok in (("schema.v2.graphql", True), ("api.2024.py", True), ("my.schema.gql", True), ("exported.graphql.txt", False), ("schema.py.bak", False), ("a.gql.json", False)):
        if ok:
            add(f"target_multi_dot_ok:{name}", "ok", strategy="graphqlschema", section={"target_file_path": name}, states=("absent",), tags={"positive", "target_multi_dot"})
        else:
            add(f"target_multi_dot_bad:{name}", IC, strategy="graphqlschema", section={"target_file_path": name}, names_in_msg=[name], states=("absent",), tags={"cfg:target_file_type", "target_multi_dot"})
    # (v) positive
    add("valid_default", "ok", states=STATES, tags={"positive"})
    add("valid_no_strategy_argument", "ok", args=[], states=("absent",), tags={"positive", "no_strategy_argument"})
    add("valid_unknown_keys", "ok", section={"totally_unknown": 1, "another": {"nested": True}}, states=("absent",), tags={"positive", "unknown_keys"})
    add("valid_unused_fragment", "ok", queries=VALID_QUERY + "fragment Unused on User { id }\n", states=("absent",), tags={"positive"})
    add("valid_graphqlschema", "ok", strategy="graphqlschema", section={"target_file_path": "schema_out.py", "unknown_key": 3}, states=STATES, tags={"positive"})
    add("valid_all_names", "ok", section={"target_package_name": "my_pkg", "client_name": "MyClient", "client_file_name": "my_client", "enums_module_name": "my_enums",
                                          "input_types_module_name": "my_inputs", "fragments_module_name": "my_frags", "include_comments": "none"}, states=("absent",), tags={"positive"})
    add("valid_include_comments_bool_true", "ok", section={"include_comments": True}, states=("absent",), tags={"positive", "deprecated_bool_comments"})
    add("valid_include_comments_bool_false", "ok", section={"include_comments": False}, states=("absent",), tags={"positive", "deprecated_bool_comments"})
    add("valid_scalars_section", "ok", section={"scalars": {"ID": {"type": "str"}}}, states=("absent",), tags={"positive", "scalars_section"})
    hdr = {"Authorization": "$VERIF_SET_VARIABLE", "X-Plain": "plain", "X-Dollar-Inside": "a$b"}
    add("valid_remote_headers_env", "ok", section={"schema_path": None, "remote_schema_url": "http://verif.invalid/graphql", "remote_schema_headers": hdr, "remote_schema_verify_ssl": False},
        env={"VERIF_SET_VARIABLE": "s3cret"}, states=("absent",), tags={"positive", "remote_headers"})
    add("valid_remote_headers_env_graphqlschema", "ok", strategy="graphqlschema", section={"schema_path": None, "remote_schema_url": "http://verif.invalid/graphql", "remote_schema_headers": hdr,
                                                                                          "target_file_path": "schema_out.py"},
        env={"VERIF_SET_VARIABLE": "s3cret"}, states=("absent",), tags={"positive", "remote_headers"})
    add("valid_nested_sections", "ok", section={"scalars": {"ID": {"type": "str"}}, "plugins": [], "files_to_include": [], "extract-operations": {"operations_module_name": "ops"}},
        states=("absent",), tags={"positive", "nested_sections"})
    add("valid_legacy_section", "ok", raw_toml="LEGACY", states=("absent",), tags={"positive", "legacy_section"})
    return cases


def snapshot(path):
    out = {}
    if os.path.isfile(path):
        st = os.stat(path)
        return {"<file>": (open(path, "rb").read(), st.st_mtime_ns)}
    for dp, dn, fn in os.walk(path):
        for f in fn:
            p = os.path.join(dp, f)
            st = os.stat(p)
            out[os.path.relpath(p, path)] = (open(p, "rb").read(), st.st_mtime_ns)
        for dd in dn:
            out[os.path.relpath(os.path.join(dp, dd), path) + "/"] = None
    return out


def run_case(case):
    import toml
    from click.testing import CliRunner
    import ariadne_codegen.exceptions as ace
    from ariadne_codegen.main import main as cli
    from ariadne_codegen import config as acconfig
    out = {"problems": []}
    P = out["problems"]
    with genpkg.scratch() as d:
        os.chdir(d)
        try:
            sp, qp = genpkg.write_inputs(d, case["schema"], case["queries"], case["files"])
            sp, qp = os.path.relpath(sp, d), os.path.relpath(qp, d)
            strategy = case["strategy"]
            if strategy == "client":
                sec = {"schema_path": sp, "queries_path": qp, "target_package_name": "gen_client", "target_package_path": "."}
                target = os.path.join(d, case["section"].get("target_package_name") or "gen_client")
            else:
                sec = {"schema_path": sp, "target_file_path": "schema_out.py"}
                target = os.path.join(d, case["section"].get("target_file_path") or "schema_out.py")
            for k, v in case["section"].items():
                if v is None:
                    sec.pop(k, None)
                else:
                    sec[k] = v
            cfg = {"tool": {"ariadne-codegen": sec}}
            if case["raw_toml"] == "LEGACY":
                text = toml.dumps({"ariadne-codegen": sec})
            else:
                text = case["raw_toml"] or toml.dumps(cfg)
            open(case.get("config_file") or "pyproject.toml", "w").write(text)
            if case.get("decoy_pyproject") is not None:
                decoy = case["decoy_pyproject"]
                if decoy == "VALID_OTHER":
                    other = dict(sec, **({"target_package_name": "decoy_client"} if strategy == "client" else {"target_file_path": "decoy_schema.py"}))
                    decoy = toml.dumps({"tool": {"ariadne-codegen": other}})
                open("pyproject.toml", "w").write(decoy)
            # pre-existing target state
            st = case["state"]
            tdir_ok = os.path.isdir(os.path.dirname(target)) and os.path.basename(target) not in ("", ".")
            if st != "absent" and tdir_ok and not os.path.exists(target):
                if strategy == "client":
                    os.makedirs(target)
                    if st == "previous_generation":
                        for f in ("__init__.py", "client.py", "enums.py", "get_user.py"):
                            open(os.path.join(target, f), "w").write("# previous generation\nOLD = 1\n")
                    elif st == "foreign_file":
                        open(os.path.join(target, "notes.txt"), "w").write("keep me\n")
                elif st in ("previous_generation", "foreign_file"):
                    open(target, "w").write("# previous schema file\n")
            before_exists = os.path.exists(target)
            before = snapshot(target) if before_exists else None
            listing_before = sorted(os.listdir(d))
            for k, v in case["env"].items():
                os.environ[k] = v
            os.environ.pop("VERIF_UNSET_VARIABLE", None)
            args = case["args"] if case["args"] is not None else [strategy]
            if sec.get("remote_schema_url") and case["expect"] == "ok":
                genpkg.serve_introspection(case["schema"])
            res = CliRunner().invoke(cli, args, catch_exceptions=True)
            exc = res.exception
            out["exit_code"] = res.exit_code
            out["exc_type"] = type(exc).__name__ if exc is not None else None
            out["exc_msg"] = (str(exc) or "")[:400] if exc is not None else ""
            out["output"] = (res.output or "")[-300:]
            after_exists = os.path.exists(target)
            after = snapshot(target) if after_exists else None
            if case["expect"] == "ok":
                if res.exit_code != 0 or exc is not None:
                    P.append(("valid_configuration_rejected", f"exit {res.exit_code} {out['exc_type']}: {out['exc_msg']} {out['output']}"))
                elif not after_exists:
                    P.append(("nothing_generated", "command succeeded but the target does not exist"))
                # settings readers must not mutate the dict
                try:
                    cd = toml.loads(text)
                    orig = copy.deepcopy(cd)
                    if strategy == "client":
                        acconfig.get_client_settings(cd)
                    else:
                        acconfig.get_graphql_schema_settings(cd)
                    if cd != orig:
                        P.append(("settings_reader_mutates_config", f"{json.dumps(cd, default=str)[:300]} != {json.dumps(orig, default=str)[:300]}"))
                    # ... and neither does the whole command given the dict (plugins receive this very dict)
                    from ariadne_codegen import main as acm
                    import contextlib
                    import io
                    cd2 = toml.loads(text)
                    orig2 = copy.deepcopy(cd2)
                    with contextlib.redirect_stdout(io.StringIO()):
                        (acm.client if strategy == "client" else acm.graphql_schema)(cd2)
                    if cd2 != orig2:
                        P.append(("command_mutates_config", f"{json.dumps(cd2, default=str)[:300]} != {json.dumps(orig2, default=str)[:300]}"))
                except Exception as e:  # noqa
                    P.append(("settings_reader_failed", f"{type(e).__name__}: {e}"))
                return out
            # must be rejected
            if res.exit_code == 0 and exc is None:
                P.append(("invalid_input_accepted", f"exit 0; output: {out['output'][-200:]}"))
            else:
                want = getattr(ace, case["expect"])
                if not isinstance(exc, want):
                    P.append(("wrong_exception_type", f"expected {case['expect']}, got {out['exc_type']}: {out['exc_msg'][:200]}"))
                else:
                    for n in case["names"]:
                        if n and n not in out["exc_msg"]:
                            P.append(("message_does_not_name_problem", f"{n!r} not in {out['exc_msg']!r}"))
            if before_exists != after_exists or before != after:
                changed = sorted(set(before or {}) ^ set(after or {})) + sorted(k for k in (before or {}) if k in (after or {}) and before[k] != after[k])
                P.append(("target_modified_despite_rejection", f"target existed before={before_exists} after={after_exists}; changed entries: {changed[:8]}"))
        finally:
            os.chdir("/")
    return out


def reference_checks():
    """Confirm with graphql-core that the negative inputs are what the labels claim."""
    from graphql import build_schema, parse, specified_rules, validate, build_ast_schema, validate_schema
    msgs, problems = {}, []
    for name, sdl in INVALID_SCHEMAS.items():
        try:
            s = build_schema(sdl)
            errs = validate_schema(s)
            if not errs:
                problems.append(f"schema mutation {name} is accepted by graphql-core")
            else:
                msgs[name] = errs[0].message[:120]
        except Exception as e:  # noqa
            msgs[name] = f"{type(e).__name__}: {str(e)[:120]}"
    schema = build_schema(SCHEMA_V)
    rules = {r.__name__: r for r in specified_rules}
    covered = {}
    for rule, q in INVALID_OPERATIONS.items():
        errs = validate(schema, parse(q), [rules[rule]])
        if not errs:
            problems.append(f"operation for rule {rule} is not rejected by that rule")
        else:
            covered[rule] = errs[0].message[:120]
    missing = sorted(set(rules) - set(covered) - {"NoUnusedFragmentsRule"})
    return msgs, covered, missing, problems


def main(tier):
    rep = Report("C17", tier, "fault_enumeration")
    genpkg.warm()
    msgs, covered, missing_rules, ref_problems = reference_checks()
    for p in ref_problems:
        rep.violation("harness_negative_input_not_invalid", [], p, {"problem": p})
    cases = build_cases(tier)
    results = pool.run_cases(run_case, cases, timeout=300, progress=500)
    counts = {"rejected_as_expected": 0, "accepted_as_expected": 0}
    distinct = set()
    for case, (st, r) in zip(cases, results):
        feats = set(case["tags"]) | {f"strategy:{case['strategy']}"}
        desc = {"label": case["label"], "state": case["state"], "strategy": case["strategy"], "section": case["section"], "expect": case["expect"],
                "queries": case["queries"] if case["label"].startswith(("invalid_operation", "queries")) else None,
                "schema": case["schema"] if case["label"].startswith(("invalid_schema", "schema")) and isinstance(case["schema"], str) else None}
        distinct.add(case["label"])
        if rep.triage:
            rep.seen(feats)
        if st != "ok":
            rep.violation("harness_" + st, feats, str(r)[:500], desc)
            continue
        if not r["problems"]:
            counts["rejected_as_expected" if case["expect"] != "ok" else "accepted_as_expected"] += 1
        for clause, detail in r["problems"]:
            rep.violation(clause, feats, detail, dict(desc, exception=r.get("exc_type"), message=r.get("exc_msg")))
    rep.sample({"label": "invalid_operation:VariablesInAllowedPositionRule", "queries": INVALID_OPERATIONS["VariablesInAllowedPositionRule"], "state": "previous_generation"})
    rep.sample({"label": "invalid_schema:interface_field_missing", "graphql_core_says": msgs.get("interface_field_missing")})
    rep.sample({"label": "bad_name:client_name", "value": "a-b", "expect": "InvalidConfiguration"})
    return rep.finish({
        "evaluations": len(cases), "distinct_nontrivial": len(distinct),
        "rule": "evaluation = one run of the real command (CliRunner) on one (negative or positive input, pre-existing target state); distinct = distinct negative/positive input labels",
        "exhaustive": True, **counts,
        "schema_mutations_confirmed_invalid_by_graphql_core": msgs,
        "operation_rules_covered": sorted(covered), "specified_rules_not_covered": missing_rules,
    }, assumptions=["graphql-core validate_schema / specified_rules define 'valid schema' and 'valid operation'", "NoUnusedFragmentsRule is deliberately not enforced by the tool (unused fragments are valid input)",
                    "for an invalid schema no specific exception class is documented: any CodeGenException is accepted"])


def replay(path):
    rec = json.load(open(path))
    c = rec["case"]
    genpkg.warm()
    for case in build_cases("thorough"):
        if case["label"] == c["label"] and case["state"] == c["state"] and case["section"] == c["section"] and case["strategy"] == c["strategy"]:
            st, r = pool.run_forked(run_case, case)
            print(st, r)
            return 1 if st != "ok" or r["problems"] else 0
    print("case not found")
    return 1
