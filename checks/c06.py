"""C06 — input models accept exactly the schema's input values, with its defaults.

Enumerated: one input type per (named kind x 14 wrapper shapes), per default-literal kind, per reserved field name, plus
nested and recursive inputs; for each, every value of the type-derived menu filtered by graphql-core coerce_input_value.
Oracle: builds by GraphQL names and by Python names; a value lacking a required field is refused; a field with a schema
default reads back graphql-core's coerced default and the server (recording resolver) sees that default.
"""
from __future__ import annotations

import enum
import json

from graphql import Undefined, build_schema, is_non_null_type
from graphql.utilities import coerce_input_value

from mc import corpus, genpkg, inputs, pool
from mc.report import Report

KINDS = {"Int": "Int", "String": "String", "ID": "ID", "Boolean": "Boolean", "Float": "Float", "Kind": "Kind", "Leaf": "Leaf", "Blob": "Blob"}

DEFAULTS = [
    ("int0", "Int", "0"), ("intneg", "Int", "-1"), ("intbig", "Int", "2147483647"), ("float", "Float", "0.5"), ("floatexp", "Float", "1e10"),
    ("floatint", "Float", "2"), ("str", "String", '"x"'), ("strquotes", "String", '"it\'s \\"q\\""'), ("strempty", "String", '""'), ("strblock", "String", '"""multi\nline"""'),
    ("boolf", "Boolean", "false"), ("boolt", "Boolean", "true"), ("enum", "Kind", "B"), ("enumkw", "Kind", "in"), ("null", "Int", "null"),
    ("list", "[Int]", "[1, 2]"), ("listempty", "[Int]", "[]"), ("listnull", "[Int]", "[1, null]"), ("listlist", "[[Int]]", "[[1], []]"),
    ("listenum", "[Kind]", "[A, B]"), ("liststr", "[String!]!", '["a", "b"]'),
    ("obj", "Leaf", '{v: 1, s: "a"}'), ("objempty", "Leaf", "{}"), ("objenum", "WithEnum", "{k: B}"), ("objlist", "WithList", "{xs: [1, 2]}"),
    ("objobj", "Outer", "{leaf: {v: 2}}"), ("listobj", "[Leaf]", '[{v: 1}, {s: "z"}]'), ("nonnull", "Int!", "7"), ("id", "ID", '"abc"'), ("idint", "ID", "5"),
    ("blobobj", "Blob", "{a: 1}"), ("objwithdefaults", "Inner", "{}"), ("enumsoftkw", "Soft", "type"), ("listenumsoftkw", "[Soft!]", "[match, case]"), ("nonnullenum", "Kind!", "A"),
    # an explicit null as the default of a list-typed field / as an inner list of a nested list
    ("listtypenull", "[String!]", "null"), ("listlistnull", "[[Int]]", "null"), ("listlistnullinner", "[[Int]]", "[[1], null]"), ("listlistnullitem", "[[Int]]", "[[null, 2], []]"),
    ("listenumnull", "[Kind]", "[null, A]"),
    # values named like the attributes every Enum member has
    ("enumresname", "Res", "name"), ("enumresvalue", "Res", "value"), ("listenumres", "[Res!]", "[value, name, names]"), ("nonnullenumres", "Res!", "value"),
]
FIELD_NAMES = ["class", "from", "in", "None", "camelCase", "PascalCase", "snake_case", "HTTPCode", "a1B2", "_lead", "trail_", "copy", "json", "dict", "model_config",
               "model_fields", "schema", "construct", "validate", "id", "type", "match", "self", "cls", "Field", "Optional", "List", "Any", "BaseModel", "Kind", "x__y"]


def _all_field_names():
    from mc.corpus2 import name_catalogue
    return FIELD_NAMES + [n for n in name_catalogue() if n not in FIELD_NAMES]


def build_schema_text():
    parts = ["enum Kind { A B in }", "enum Soft { type match case }", "enum Res { name value names }", "scalar Blob", "input Leaf { v: Int s: String }", "input WithEnum { k: Kind }", "input WithList { xs: [Int!] }",
             "input Outer { leaf: Leaf }", "input Inner { a: Int = 1 k: Kind = A }", "input Rec { id: ID! next: Rec kids: [Rec!] }",
             "input Mixed { req: String! opt: Int kind: Kind! leaf: Leaf leaves: [Leaf!] }"]
    names = ["Rec", "Mixed", "Inner"]
    for k, t in KINDS.items():
        for i, shape in enumerate(corpus.SHAPES):
            n = f"S_{k}_{i}"
            parts.append(f"input {n} {{ f: {shape.replace('T', t)} other: Int }}")
            names.append(n)
    for dn, t, lit in DEFAULTS:
        n = f"D_{dn}"
        parts.append(f"input {n} {{ f: {t} = {lit} other: Int }}")
        names.append(n)
    for dn, t, lit in DEFAULTS:
        n = f"DC_{dn}"
        parts.append(f"input {n} {{ camelCaseField: {t} = {lit} other: Int }}")
        names.append(n)
    # the same defaults on a field contributed by an `extend input` block (the field's AST node is not part of the input's own node)
    for dn, t, lit in DEFAULTS:
        n = f"DX_{dn}"
        parts.append(f"input {n} {{ other: Int }}\nextend input {n} {{ f: {t} = {lit} g: Int! = 4 }}")
        names.append(n)
    # two custom scalars configured with the same Python type but their own serialize functions
    parts.append("scalar Price\nscalar Rate\ninput Money { p: Price r: Rate ps: [Price!] rs: [Rate] }\ninput MoneyOuter { m: Money r: Rate }")
    names += ["Money", "MoneyOuter"]
    for i, fn in enumerate(_all_field_names()):
        n = f"N_{i}"
        parts.append(f"input {n} {{ {fn}: Int other: Int req2: String! }}")
        names.append(n)
    q = "\n".join(f"  g_{n}(x: {n}): String" for n in names)
    parts.append("type Query {\n" + q + "\n}")
    return "\n".join(parts) + "\n", names


SCHEMA_TEXT, INPUT_NAMES = build_schema_text()
_schema = None


def get_schema():
    global _schema
    if _schema is None:
        _schema = build_schema(SCHEMA_TEXT)
    return _schema


MONEY_MOD = "def ser_price(v):\n    return f'{v:.2f}'\n\n\ndef ser_rate(v):\n    return f'{v:.4f}'\n"


def money_build(name, i):
    import decimal
    return decimal.Decimal(i + 1)


def money_wire(name, i):
    return f"{i + 1:.2f}" if name == "Price" else f"{i + 1:.4f}"


def to_wire_py(v):
    import pydantic
    if isinstance(v, enum.Enum):
        return v.value
    if isinstance(v, pydantic.BaseModel):
        return json.loads(v.model_dump_json(by_alias=True))
    if isinstance(v, list):
        return [to_wire_py(x) for x in v]
    if isinstance(v, dict):
        return {k: to_wire_py(x) for k, x in v.items()}
    return v


def drop_nulls(v):
    """null-valued object entries and absent entries read the same from Python: compare modulo them."""
    if isinstance(v, dict):
        return {k: drop_nulls(x) for k, x in v.items() if x is not None}
    if isinstance(v, list):
        return [drop_nulls(x) for x in v]
    return v


def evaluate(case):
    import pydantic
    name, options = case
    options = dict(options)
    files = None
    custom = None
    if name in ("Money", "MoneyOuter"):
        files = {"money_mod.py": MONEY_MOD}
        custom = {"Price": [0, 1], "Rate": [0, 1]}
    via_introspection = options.pop("__introspection__", False)
    schema = get_schema()
    t = schema.type_map[name]
    out = {"status": "ok", "evals": 0, "problems": [], "outcomes": set()}
    P = out["problems"]
    q = f"query Q($x: {name}) {{ g_{name}(x: $x) }}\n"
    with genpkg.scratch() as d:
        try:
            if via_introspection:
                genpkg.serve_introspection(SCHEMA_TEXT)
                options["remote_schema_url"] = "http://verif.invalid/graphql"
            if files:
                options = dict(options, files_to_include=[f"{d}/money_mod.py"],
                               scalars={"Price": {"type": "decimal.Decimal", "serialize": ".money_mod.ser_price"}, "Rate": {"type": "decimal.Decimal", "serialize": ".money_mod.ser_rate"}})
            pkg, pdir, _ = genpkg.generate(d, SCHEMA_TEXT, q, dict({"include_all_inputs": False, "include_all_enums": False}, **options), files=files)
            mod, mods = genpkg.import_package(d, pkg)
        except genpkg.GenError as e:
            out.update(status="gen_error", error=str(e), error_type=e.exc_type)
            return out
        except BaseException as e:  # noqa
            out.update(status="import_error", error=f"{type(e).__name__}: {e}", error_type=type(e).__name__)
            return out
        cls = getattr(mod, name, None)
        if cls is None:
            out.update(status="import_error", error=f"package has no class {name}", error_type="MissingClass")
            return out
        values = inputs.menu_nn(t, 2, custom, 3)[:40]
        for spec in values:
            wire = inputs.ref_wire(spec, money_wire if custom else None)
            try:
                coerced = coerce_input_value(wire, t)
            except Exception as e:  # noqa
                P.append(("harness_menu_value_invalid", f"{wire}: {e}", {"value": wire}))
                continue
            out["evals"] += 1
            ctx = {"value": wire}
            # (a) by GraphQL names
            try:
                inst = cls.model_validate(wire)
                back = json.loads(inst.model_dump_json(by_alias=True, exclude_unset=True))
                if back != wire:
                    P.append(("graphql_names_roundtrip", f"validated {wire} dumps back as {back}", ctx))
            except pydantic.ValidationError as e:
                P.append(("valid_value_refused_by_graphql_names", f"{wire}: {str(e)[:300]}", ctx))
            except Exception as e:  # noqa
                P.append(("valid_value_crashes", f"{wire}: {type(e).__name__}: {str(e)[:300]}", ctx))
            # (a') by Python names
            try:
                inst2 = inputs.build(spec, mod, money_build if custom else None)
                back = json.loads(inst2.model_dump_json(by_alias=True, exclude_unset=True))
                if back != wire:
                    P.append(("python_names_roundtrip", f"built {wire} dumps back as {back}", ctx))
                # (d) through the client: the resolver sees the coerced value (defaults applied by the server)
                captured, (st, val) = inputs.call_and_capture(mod, mod.Client, True, "q", {"x": inst2})
                if len(captured) != 1:
                    P.append(("send_failed", f"{st} {val!r}", ctx))
                else:
                    errs, rec, _ = inputs.run_reference(schema, captured[0]["query"], captured[0]["variables"], "Q")
                    rerrs, rrec, _ = inputs.run_reference(schema, q, {"x": wire}, "Q")
                    if errs:
                        P.append(("coercion_rejects_sent", f"{captured[0]['variables']}: {errs[:2]}", ctx))
                    elif rec != rrec:
                        P.append(("server_sees_other_value", f"resolver got {rec} expected {rrec}", ctx))
            except pydantic.ValidationError as e:
                P.append(("valid_value_refused_by_python_names", f"{wire}: {str(e)[:300]}", ctx))
            except Exception as e:  # noqa
                P.append(("valid_value_crashes", f"{wire}: {type(e).__name__}: {str(e)[:300]}", ctx))
        # (b) required field missing
        req = [n for n, f in t.fields.items() if is_non_null_type(f.type) and f.default_value is Undefined]
        if values:
            base = inputs.ref_wire(values[-1] if len(values[-1][2]) >= len(values[0][2]) else values[0])
            for r in req:
                w = {k: v for k, v in base.items() if k != r}
                out["evals"] += 1
                try:
                    cls.model_validate(w)
                    P.append(("missing_required_accepted", f"{w} accepted although {r} is required", {"value": w, "field": r}))
                except pydantic.ValidationError:
                    out["outcomes"].add("missing_required_refused")
        # (c) defaults
        for fname, f in t.fields.items():
            if f.default_value is Undefined:
                continue
            out["evals"] += 1
            others = {n: inputs.ref_wire(inputs.menu(ff.type, 1)[0]) for n, ff in t.fields.items() if n in req and n != fname}
            ctx = {"field": fname, "schema_default": f.default_value}
            try:
                inst = cls.model_validate(others)
                py = inputs.alias_map(cls).get(fname)
                got = to_wire_py(getattr(inst, py))
                want = f.default_value
                if drop_nulls(got) != drop_nulls(want):
                    P.append(("default_differs", f"{name}.{fname}: reads back {got!r}, schema default {want!r}", ctx))
                else:
                    out["outcomes"].add("default_reads_back")
                captured, (st, val) = inputs.call_and_capture(mod, mod.Client, True, "q", {"x": inst})
                if len(captured) != 1:
                    P.append(("send_failed", f"default instance: {st} {val!r}", ctx))
                else:
                    errs, rec, _ = inputs.run_reference(schema, captured[0]["query"], captured[0]["variables"], "Q")
                    if errs:
                        P.append(("coercion_rejects_sent", f"{captured[0]['variables']}: {errs[:2]}", ctx))
                    else:
                        seen = rec[0][1]["x"].get(fname, "<absent>")
                        if seen != inputs.jsonable(want):
                            P.append(("server_sees_other_default", f"{name}.{fname}: server sees {seen!r}, schema default {want!r}", ctx))
            except Exception as e:  # noqa
                P.append(("default_instance_fails", f"{name}.{fname}: {type(e).__name__}: {str(e)[:300]}", ctx))
    out["outcomes"] = sorted(out["outcomes"])
    return out


def case_features(name):
    f = {f"input:{name.split('_')[0]}"}
    if name.startswith("S_"):
        _, k, i = name.split("_")
        f |= {f"kind:{k}", f"shape:{corpus.SHAPES[int(i)]}"}
    elif name.startswith("D_"):
        f.add(f"default:{name[2:]}")
    elif name.startswith("DX_"):
        f.add(f"default:{name[3:]}")
        f.add("extend_input")
    elif name.startswith("DC_"):
        f.add(f"default:{name[3:]}")
        f.add("aliased_field")
    elif name.startswith("N_"):
        f.add(f"fieldname:{_all_field_names()[int(name[2:])]}")
    else:
        f.add(f"input:{name}")
    return f


def value_features(v):
    f = set()

    def rec(x, inlist):
        if x is None and inlist:
            f.add("null_list_item")
        if isinstance(x, list):
            for y in x:
                rec(y, True)
        elif isinstance(x, dict):
            for y in x.values():
                rec(y, False)
    rec(v, False)
    return f


def main(tier):
    rep = Report("C06", tier, "exploration")
    genpkg.warm()
    cases = [(n, {}) for n in INPUT_NAMES]
    extra = [n for n in INPUT_NAMES if n.startswith("N_") or n in ("Mixed", "Rec") or n.startswith("D_")]
    cases += [(n, {"convert_to_snake_case": False}) for n in (extra if tier == "quick" else INPUT_NAMES)]
    # the same input types through the introspection source (defaults are known to be lost there: C19; so only types without defaults)
    intro = [n for n in INPUT_NAMES if n.startswith(("S_", "N_")) or n in ("Mixed", "Rec")]
    cases += [(n, {"__introspection__": True}) for n in (intro if tier != "quick" else intro[::3])]
    # the pruning options in every combination, for inputs that reference enums / nested inputs (the other inputs of the schema are then kept or dropped)
    for n in ("S_Kind_0", "S_Kind_5", "Mixed", "D_enum", "D_objenum", "Rec", "MoneyOuter"):
        for ai, ae in ((True, False), (True, True), (False, True)):
            cases.append((n, {"include_all_inputs": ai, "include_all_enums": ae}))
    results = pool.run_cases(evaluate, cases, timeout=300, progress=200)
    evals = 0
    outcomes = set()
    distinct = 0
    for (name, opts), (st, r) in zip(cases, results):
        feats = case_features(name) | {f"cfg:{k}={v}" for k, v in opts.items() if not k.startswith("__")} | ({"source:introspection"} if opts.get("__introspection__") else set())
        desc = {"input_type": name, "options": opts, "definition": next(l for l in SCHEMA_TEXT.splitlines() if l.startswith(f"input {name} "))}
        if rep.triage:
            rep.seen(feats)
        if st != "ok":
            rep.violation("harness_" + st, feats, str(r)[:400], desc)
            continue
        if r["status"] != "ok":
            rep.violation(f'{r["status"]}:{r.get("error_type")}', feats, r["error"], desc)
            continue
        evals += r["evals"]
        outcomes.update(r["outcomes"])
        distinct += 1 if r["evals"] > 1 else 0
        for clause, detail, ctx in r["problems"]:
            rep.violation(clause, feats | value_features(ctx.get("value")), detail, dict(desc, **ctx))
        if len(rep.samples) < 4 and name.startswith("D_obj"):
            rep.sample({"input": desc["definition"], "evaluations": r["evals"], "outcomes": r["outcomes"]})
    return rep.finish({
        "evaluations": evals, "distinct_nontrivial": distinct,
        "rule": "evaluation = one (input type, value) build by GraphQL names and by Python names + round trip through the client, or one missing-required / default check; "
                "input types: 8 kinds x 14 wrapper shapes, 32 default literals, 31 reserved/cased field names, nested/recursive inputs; values from the type-derived menu accepted by coerce_input_value",
        "exhaustive": True, "input_types": len(INPUT_NAMES), "cases": len(cases), "observed_outcomes": sorted(outcomes),
    }, assumptions=["canonical form only (IDs as strings, enums by name)", "only the refusal named in the statement (missing required field) is demanded"])


def replay(path):
    rec = json.load(open(path))
    c = rec["case"]
    genpkg.warm()
    st, r = pool.run_forked(evaluate, (c["input_type"], c.get("options") or {}))
    print(st, r if st != "ok" else {k: v for k, v in r.items() if k != "problems"})
    hits = [p for p in (r or {}).get("problems", []) if p[0] == rec["clause"]] if st == "ok" else [1]
    for h in hits[:5]:
        print("  ", h)
    return 1 if hits or (st == "ok" and r["status"] != "ok") else 0
