"""The repository's own end-to-end fixtures (tests/main/clients/*) as an additional input family:
real-world-shaped schemas and operations, taken from /repo's working tree at check time."""
from __future__ import annotations

import os

import toml

import ariadne_codegen

# the working tree the checks import (normally /repo; a scratch worktree when PYTHONPATH points at one)
FIXDIR = os.path.join(os.path.dirname(os.path.dirname(os.path.abspath(ariadne_codegen.__file__))), "tests", "main", "clients")
# fixtures usable for response exploration: no custom scalar parse functions needed by the reference executor
RESPONSE_FIXTURES = ["example", "inline_fragments", "interface_as_fragment", "multiple_fragments", "fragments_on_abstract_types",
                     "only_used_inputs_and_enums", "operations", "custom_files_names", "extended_models"]
LOAD_FIXTURES = RESPONSE_FIXTURES + ["custom_scalars", "shorter_results", "custom_base_client", "client_forward_refs", "client_forward_refs_shorter_results",
                                     "custom_query_builder", "custom_sync_query_builder"]


def load_fixture(name):
    d = os.path.join(FIXDIR, name)
    cfg_path = os.path.join(d, "pyproject.toml")
    if not os.path.exists(cfg_path):
        return None
    sec = toml.load(cfg_path)["tool"]["ariadne-codegen"]
    out = dict(sec)
    for k in ("schema_path", "queries_path", "base_client_file_path"):
        if k in out:
            out[k] = os.path.join(d, out[k])
    if "files_to_include" in out:
        out["files_to_include"] = [os.path.join(d, f) for f in out["files_to_include"]]
    return out


def available():
    return [n for n in LOAD_FIXTURES if os.path.isdir(os.path.join(FIXDIR, n))]
