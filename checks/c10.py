"""C10 — generation is deterministic and idempotent.

The nondeterminism the statement names is OWNED, not sampled: every iteration over a set inside ariadne_codegen.* (import
hook mc/vset.py) and every directory listing (Path.glob) is an explorer choice point.  For each stress input all runs with
<= 1 (quick) / <= 2 (thorough) deviations from the natural order are executed (each in a fresh forked process) and the
sha256 of every generated file is compared with the baseline; histories {fresh directory, regenerate over a previous
generation}; strategies client and graphqlschema.  Binding to reality: un-instrumented subprocess runs of the real CLI
under several PYTHONHASHSEED values and file creation orders must equal the baseline.
"""
from __future__ import annotations

import hashlib
import json
import os
import pathlib
import shutil
import subprocess
import sys

from mc import vset

vset.install()  # before anything imports ariadne_codegen

from mc import corpus, genpkg, pool  # noqa: E402
from mc.explorer import Chooser, Divergence  # noqa: E402
from mc.report import Report, seed  # noqa: E402

PLUG = "ariadne_codegen.contrib."
PLUGINS = {"shorter": PLUG + "shorter_results.ShorterResultsPlugin", "extract": PLUG + "extract_operations.ExtractOperationsPlugin",
           "noreimports": PLUG + "no_reimports.NoReimportsPlugin", "forwardrefs": PLUG + "client_forward_refs.ClientForwardRefsPlugin"}

FAN_QUERIES = """
query FanA { user { ...Fe ...Fd ...Fc ...Fb ...Fa friend { ...Fb ...Fa ...A0 } } node { ...Ng ...Nf ... on User { ...Fa } ... on Admin { level } ... on Bot { version } } }
query FanB { u { ... on User { ...Fc ...Fa } ... on Admin { ...Ad } } nodes { id ...Nf } userReq { ...Fe } }
fragment Fa on User { id }
fragment A0 on User { active ...Zs ...Zq ...Zr ...Zt }
fragment Zq on User { age }
fragment Zr on User { score }
fragment Zs on User { blob }
fragment Zt on User { kind }
fragment Fb on User { name ...Fa }
fragment Fc on User { kind ...Fa ...Fb }
fragment Fd on User { age ...Fc ...Fa ...Fb }
fragment Fe on User { score ...Fd ...Fb ...Fc ...Fa }
fragment Nf on Node { id }
fragment Ng on Node { id ...Nf }
fragment Ad on Admin { level perms }
"""
SCHEMA_MANY = """
enum Ea { A B } enum Eb { A B } enum Ec { A B } enum Ed { A B } enum Ee { A B }
scalar Sa scalar Sb
interface Node { id: ID! }
type Ta implements Node { id: ID! ea: Ea sa: Sa }
type Tb implements Node { id: ID! eb: Eb sb: Sb }
type Tc implements Node { id: ID! ec: Ec }
type Td implements Node { id: ID! ed: Ed }
union Un = Ta | Tb | Tc | Td
input Ia { e: Ea next: Ib s: Sa } input Ib { e: Eb next: Ic } input Ic { e: Ec back: Ia }
type Query { node: Node un: Un uns: [Un!]! f(a: Ia, b: Ib, e: Ee): Node one: Ta }
type Mutation { m(a: Ia): Ta }
"""
QUERIES_MANY = """
query ManyA($a: Ia, $e: Ee) { node { id ... on Ta { ea sa } ... on Tc { ec } } un { ... on Tb { eb sb } ... on Td { ed } } f(a: $a, e: $e) { id } }
query ManyB { uns { __typename ... on Ta { id } ... on Tb { id } ... on Tc { id } } }
query ManyOne { one { id ea } }
mutation ManyM($a: Ia) { m(a: $a) { id sa } }
"""
SCALARS = {"Sa": {"type": "str"}, "Sb": {"type": "int"}}


UNPACKED_ONLY = """
query UnpA { u { ...Ua ...Ub ...Uc } }
query UnpB { node { ...Na ...Nb } ul { ...Uc ...Ua } user { ...Nu ...Nv } }
fragment Ua on U { ... on User { id } }
fragment Ub on U { ... on Admin { level } }
fragment Uc on U { __typename }
fragment Na on Node { id ... on User { name } }
fragment Nb on Node { ... on Admin { perms } }
fragment Nu on Node { id }
fragment Nv on Named { name }
"""


def split_schema():
    defs = [d.strip() for d in corpus.SCHEMA_K.strip().split("\n}\n")]
    text = corpus.SCHEMA_K
    from graphql import parse, print_ast
    doc = parse(text)
    parts = [print_ast(d) for d in doc.definitions]
    files = {"b_types.graphql": [], "a/interfaces.graphqls": [], "a/deep/unions.gql": [], "z.graphql": []}
    names = list(files)
    for i, p in enumerate(parts):
        files[names[i % len(names)]].append(p)
    return {k: "\n\n".join(v) + "\n" for k, v in files.items()}


def stress_inputs(tier):
    s = []
    s.append(dict(label="fragment_fan", strategy="client", schema=corpus.SCHEMA_K, queries=FAN_QUERIES, options={}))
    s.append(dict(label="many_enums_unions_scalars", strategy="client", schema=SCHEMA_MANY, queries=QUERIES_MANY, options={"scalars": SCALARS, "include_all_enums": False, "include_all_inputs": False}))
    s.append(dict(label="plugin_shorter_results", strategy="client", schema=SCHEMA_MANY, queries=QUERIES_MANY, options={"scalars": SCALARS, "plugins": [PLUGINS["shorter"]]}))
    s.append(dict(label="plugin_forward_refs", strategy="client", schema=SCHEMA_MANY, queries=QUERIES_MANY, options={"scalars": SCALARS, "plugins": [PLUGINS["forwardrefs"]]}))
    s.append(dict(label="plugin_extract_noreimports", strategy="client", schema=corpus.SCHEMA_K, queries=FAN_QUERIES, options={"plugins": [PLUGINS["extract"], PLUGINS["noreimports"]]}))
    s.append(dict(label="split_files", strategy="client", schema=split_schema(),
                  queries={"q2.graphql": FAN_QUERIES.split("fragment Fa")[0], "sub/frags.gql": "fragment Fa" + FAN_QUERIES.split("fragment Fa", 1)[1], "sub/deeper/more.graphqls": "query Extra { user { id } }\n"},
                  options={"include_comments": "stable"}))
    # operations whose only fragments are unpacked ones (on unions, with inline fragments, on an interface of the object): no mixin fragment anywhere
    s.append(dict(label="unpacked_fragments_only", strategy="client", schema=corpus.SCHEMA_K, queries=UNPACKED_ONLY, options={}))
    s.append(dict(label="unpacked_fragments_only_extract", strategy="client", schema=corpus.SCHEMA_K, queries=UNPACKED_ONLY, options={"plugins": [PLUGINS["extract"]]}))
    # plugins enabled by package / module name (the second documented form): all plugins the module exposes, in a deterministic order
    s.append(dict(label="plugins_by_package_name", strategy="client", schema=SCHEMA_MANY, queries=QUERIES_MANY, options={"scalars": SCALARS, "plugins": ["ariadne_codegen.contrib"]}))
    s.append(dict(label="plugins_by_module_and_class", strategy="client", schema=corpus.SCHEMA_K, queries=FAN_QUERIES,
                  options={"plugins": ["ariadne_codegen.contrib.extract_operations", PLUGINS["shorter"], "ariadne_codegen.contrib.no_reimports"]}))
    # an inline fragment on the interface itself next to several sub-types (the member list of the Union is built from a set)
    s.append(dict(label="inline_on_own_interface", strategy="client", schema=corpus.SCHEMA_K,
                  queries="query SelfIface { node { ... on Node { id } ... on User { name } ... on Admin { level } ... on Bot { version } } nodes { id ... on Node { id } ... on Admin { perms } ... on User { age } } }\n", options={}))
    # builder classes for types whose names differ only in case (ties in a case-insensitive sort)
    case_schema = SCHEMA_MANY.replace("type Query {", "type Url { a: Int }\ntype URL { b: Int }\ntype url { c: Int }\ntype Sku { s: Url }\ntype SKU { s: URL }\ntype Query { u1: Url u2: URL u3: url k1: Sku k2: SKU")
    s.append(dict(label="custom_operations_case_insensitive_ties", strategy="client", schema=case_schema, queries=QUERIES_MANY, options={"scalars": SCALARS, "enable_custom_operations": True}))
    enum_frag_schema = "\n".join(f"enum En{i} {{ A B }}" for i in range(6)) + "\ntype Item { id: ID! " + " ".join(f"e{i}: En{i}" for i in range(6)) + " }\ntype Query { item: Item items: [Item!]! }\n"
    enum_frag_queries = "query GetItem { item { ...Fa ...Fb ...Fc } items { ...Fd ...Fe id e5 } }\n" + "\n".join(f"fragment F{c} on Item {{ e{i} }}" for i, c in enumerate("abcde")) + "\n"
    s.append(dict(label="enums_in_mixin_fragments_pruned", strategy="client", schema=enum_frag_schema, queries=enum_frag_queries, options={"include_all_enums": False, "include_all_inputs": False}))
    # repeated and many @mixin directives on one field / fragment definition / operation-level field (the extra bases are collected per class)
    mx = lambda *names: " ".join(f'@mixin(from: ".mixins_{n.lower()}", import: "{n}")' for n in names)
    mixin_queries = (f"query Mixed {{ user {mx('Auditable', 'Printable', 'Auditable')} {{ id friend {mx('Zed', 'Alpha', 'Mid', 'Beta', 'Alpha')} {{ id }} }} node {mx('Printable', 'Auditable')} {{ id }} }}\n"
                     f"query UsesFrag {{ user {{ ...MixFrag }} nodes {mx('Beta', 'Beta', 'Alpha')} {{ id }} }}\nfragment MixFrag on User {mx('Cc', 'Aa', 'Bb', 'Aa', 'Cc')} {{ id name }}\n")
    s.append(dict(label="repeated_mixins", strategy="client", schema=corpus.SCHEMA_K, queries=mixin_queries, options={}))
    # builder classes for types implementing several interfaces that declare the same field with different types (interface chains included)
    conflict_schema = ("interface Node { id: ID! owner: Node label(short: Boolean): String }\ninterface Entity { id: ID! owner: Entity label(lang: String): String }\n"
                       "interface Resource implements Node { id: ID! owner: Node label(short: Boolean): String size: Int }\ninterface Principal implements Entity { id: ID! owner: Principal label(lang: String): String }\n"
                       "type Document implements Node & Entity & Resource { id: ID! owner: Document label(short: Boolean, lang: String): String size: Int }\n"
                       "type Person implements Principal & Entity & Node { id: ID! owner: Person label(lang: String, short: Boolean): String }\n"
                       "union Anything = Document | Person\ntype Query { doc: Document who: Person node: Node entity: Entity any: Anything }\n")
    s.append(dict(label="custom_operations_interface_field_conflicts", strategy="client", schema=conflict_schema, queries="query GetDoc { doc { id owner { id } } node { id ... on Person { label } } }\n",
                  options={"enable_custom_operations": True}))
    # a module of the package that imports the package itself absolutely (a scalar type given by its full dotted path) next to third-party
    # imports: how the import sorter classifies `genpkg` must not depend on what already lies in the target / working directory
    money_schema = ("scalar Money\ninput PriceIn { minAmount: Money! maxAmount: Money note: String }\ntype Product { id: ID! listPrice: Money tags: [String!] }\n"
                    "type Query { products(min: Money, f: PriceIn): [Product!]! }\n")
    money_queries = ("query ListProducts($min: Money, $f: PriceIn) { products(min: $min, f: $f) { id listPrice tags } }\n"
                     "query ListBits($min: Money) { products(min: $min) { ...ProductBits tags } }\nfragment ProductBits on Product { id listPrice }\n")
    money_impl = "from decimal import Decimal\n\n\nclass Money(Decimal):\n    pass\n\n\ndef parse_money(value):\n    return Money(value)\n\n\ndef serialize_money(value):\n    return str(value)\n"
    for label, extra in (("absolute_self_import", {}), ("absolute_self_import_cwd_is_target", {"cwd_is_target": True})):
        s.append(dict(label=label, strategy="client", schema=money_schema, queries=money_queries, files={"money_impl.py": money_impl},
                      options={"scalars": {"Money": {"type": "genpkg.money_impl.Money", "parse": "genpkg.money_impl.parse_money", "serialize": "genpkg.money_impl.serialize_money"}},
                               "files_to_include": ["@in/money_impl.py"]}, **extra))
    # names that collide after the name mapping (input fields, result fields, aliases, enum values): however the generator resolves or
    # merges them, the text it writes must not depend on the process (salted hash(), id(), set order)
    coll_schema = ("enum Mode { fooBar foo_bar FOO_BAR }\ninput Range { created_after: Int createdAfter: Int userId: ID user_id: ID UserId: ID mode: Mode = foo_bar }\n"
                   "type Item { fooBar: Int foo_bar: Int itemId: ID item_id: ID mode: Mode }\ntype Query { items(r: Range, createdAfter: Int, created_after: Int): [Item!]! }\n")
    coll_queries = ("query GetItems($r: Range) { items(r: $r) { fooBar foo_bar itemId item_id aB: mode a_b: mode } }\n"
                    "query GetItemsAgain($r: Range, $x: Int) { items(r: $r, createdAfter: $x) { userId: itemId user_id: item_id } }\n")
    s.append(dict(label="colliding_names", strategy="client", schema=coll_schema, queries=coll_queries, options={}))
    s.append(dict(label="colliding_names_custom_operations", strategy="client", schema=coll_schema, queries=coll_queries, options={"enable_custom_operations": True, "convert_to_snake_case": True}))
    parts = split_schema()
    same = {"types.graphql": parts["b_types.graphql"], "a/types.graphql": parts["a/interfaces.graphqls"], "b/types.graphql": parts["a/deep/unions.gql"], "b/c/types.graphql": parts["z.graphql"]}
    s.append(dict(label="same_file_names_in_subdirs", strategy="client", schema=same,
                  queries={"ops.graphql": "query OpA { user { id } }\n", "x/ops.graphql": "query OpB { node { id } }\n", "y/ops.graphql": "query OpC { u { __typename } }\n"}, options={}))
    s.append(dict(label="same_file_names_graphqlschema", strategy="graphqlschema", schema=same, target="out_schema.graphql"))
    s.append(dict(label="custom_operations", strategy="client", schema=SCHEMA_MANY, queries=QUERIES_MANY, options={"scalars": SCALARS, "enable_custom_operations": True}))
    s.append(dict(label="graphqlschema_py", strategy="graphqlschema", schema=split_schema(), target="out_schema.py"))
    s.append(dict(label="graphqlschema_graphql", strategy="graphqlschema", schema=SCHEMA_MANY, target="out_schema.graphql"))
    return s


def site_of():
    f = sys._getframe(2)
    for _ in range(6):
        fn = f.f_code.co_filename
        if "ariadne_codegen" in fn:
            return f"{os.path.basename(fn)}:{f.f_code.co_name}"
        f = f.f_back
        if f is None:
            break
    return "?"


def hash_tree(root):
    out = {}
    for dp, dn, fn in os.walk(root):
        dn[:] = [x for x in dn if x != "__pycache__"]
        for f in fn:
            p = os.path.join(dp, f)
            out[os.path.relpath(p, root)] = hashlib.sha256(open(p, "rb").read()).hexdigest()
    return out


def write_extra_files(inp, indir):
    for fn, txt in (inp.get("files") or {}).items():
        with open(os.path.join(indir, fn), "w") as f:
            f.write(txt)


def config_for(inp, root, sp, qp):
    if inp["strategy"] == "client":
        up = "../" if inp.get("cwd_is_target") else ""
        opts = dict({"include_comments": "stable"}, **inp["options"])
        if "files_to_include" in opts:
            opts["files_to_include"] = [x.replace("@in/", up + "in/") for x in opts["files_to_include"]]
        if inp.get("cwd_is_target"):
            # the documented default: the package is generated into the directory the command runs in
            root, sp, qp = ".", up + sp, (up + qp if qp else qp)
        cfg = genpkg.make_config(root, sp, qp, "genpkg", opts)
        # stable comments embed the source paths; keep them independent of the scratch directory name
        return cfg
    return {"tool": {"ariadne-codegen": {"schema_path": sp, "target_file_path": os.path.join(root, inp["target"])}}}


def run_case(case):
    """One generation in this (forked) process under the given choice prefix.  Returns choices, sizes, sites, hashes."""
    inp, prefix, expect, prior = case["input"], case["prefix"], case.get("expect"), case.get("prior")
    import contextlib
    import io
    from ariadne_codegen import main as acm
    ch = Chooser(prefix, expect)
    sites = []

    def choose(n, label=None):
        sites.append(site_of())
        return ch(n, label)

    real_glob = pathlib.Path.glob

    def glob(self, pattern, **kw):
        items = list(real_glob(self, pattern, **kw))
        if len(items) >= 2:
            menu = vset.permutations_menu(len(items))
            sites.append("Path.glob")
            c = ch(len(menu), ("glob", len(items)))
            items = [items[i] for i in menu[c]]
        return iter(items)

    work = genpkg.scratch_dir("verif-c10w-")
    # relative paths everywhere: stable comments embed the schema/queries paths, which must not depend on the scratch name
    os.chdir(work)
    try:
        sp, qp = genpkg.write_inputs("in", inp["schema"], inp.get("queries"), None)
        write_extra_files(inp, "in")
        os.makedirs("out", exist_ok=True)
        if prior:
            shutil.copytree(prior, "out", dirs_exist_ok=True)
        cfg = config_for(inp, "out", sp, qp)
        if inp.get("cwd_is_target"):
            os.chdir("out")
        vset.set_chooser(choose)
        pathlib.Path.glob = glob
        err = None
        try:
            with contextlib.redirect_stdout(io.StringIO()):
                if inp["strategy"] == "client":
                    acm.client(cfg)
                else:
                    acm.graphql_schema(cfg)
        except Divergence:
            raise
        except BaseException as e:  # noqa
            err = f"{type(e).__name__}: {str(e)[:300]}"
        finally:
            vset.set_chooser(None)
            pathlib.Path.glob = real_glob
        os.chdir(work)
        return {"choices": ch.choices, "sizes": ch.sizes, "sites": sites, "hashes": hash_tree("out"), "error": err}
    finally:
        os.chdir("/")
        shutil.rmtree(work, ignore_errors=True)


def make_prior(inp, where):
    """A previous generation of the same inputs, kept on disk for the 'regenerate over existing' history."""
    def gen(_):
        import contextlib
        import io
        from ariadne_codegen import main as acm
        os.chdir(where)
        sp, qp = genpkg.write_inputs("in", inp["schema"], inp.get("queries"), None)
        write_extra_files(inp, "in")
        os.makedirs("out", exist_ok=True)
        cfg = config_for(inp, "out", sp, qp)
        if inp.get("cwd_is_target"):
            os.chdir("out")
        with contextlib.redirect_stdout(io.StringIO()):
            (acm.client if inp["strategy"] == "client" else acm.graphql_schema)(cfg)
        os.chdir(where)
        return hash_tree("out")
    st, r = pool.run_forked(gen, None, timeout=300)
    return os.path.join(where, "out") if st == "ok" else None


def explore(inp, bound, prior, rep, stats, feats0):
    """Wave-parallel exploration of all choice sequences with <= bound deviations."""
    waves = [[((), None)]]
    baseline = None
    outputs = {}
    runs = 0
    for depth in range(bound + 1):
        frontier = waves[depth]
        if not frontier:
            break
        cases = [dict(input=inp, prefix=list(p), expect=e, prior=prior) for p, e in frontier]
        results = pool.run_cases(run_case, cases, timeout=600)
        nxt = []
        for (p, e), (st, r) in zip(frontier, results):
            runs += 1
            desc = {"input": inp["label"], "strategy": inp["strategy"], "choices": list(p), "history": "regenerate" if prior else "fresh"}
            if st != "ok":
                rep.violation("harness_" + st, feats0, str(r)[:600], desc)
                continue
            if baseline is None:
                baseline = r
                stats["choice_points"] = max(stats.get("choice_points", 0), len(r["sizes"]))
                if r["error"]:
                    rep.violation("baseline_generation_failed", feats0, r["error"], desc)
                    return runs, outputs, baseline
            key = json.dumps(r["hashes"], sort_keys=True) + (r["error"] or "")
            outputs.setdefault(key, list(p))
            stats["transitions"] += len(r["choices"])
            if r["hashes"] != baseline["hashes"] or r["error"] != baseline["error"]:
                dev = [i for i, c in enumerate(r["choices"]) if c != 0]
                sites = sorted({r["sites"][i] for i in dev if i < len(r["sites"])})
                diff = sorted(k for k in set(r["hashes"]) | set(baseline["hashes"]) if r["hashes"].get(k) != baseline["hashes"].get(k))
                rep.violation("output_depends_on_iteration_order", feats0 | {f"site:{s}" for s in sites},
                              f"deviating at {sites} changes {diff[:6]} {r['error'] or ''}", dict(desc, deviation_sites=sites, files_changed=diff[:10]))
            devs = sum(1 for c in p if c != 0)
            if devs + 1 <= bound:
                for i in range(len(p), len(r["choices"])):
                    for alt in range(1, r["sizes"][i]):
                        nxt.append((tuple(r["choices"][:i]) + (alt,), r["sizes"][: i + 1]))
        waves.append(nxt)
    return runs, outputs, baseline


def subprocess_run(inp, hashseed, order, work, again=False):
    """Real CLI, un-instrumented, in a fresh interpreter.  again=True: run the command a second time over what the first run wrote
    (a second fresh interpreter) and return (hashes after the first run, hashes after the second run, error)."""
    import toml
    d = os.path.join(work, f"sub-{inp['label']}-{hashseed}-{order}" + ("-again" if again else ""))
    os.makedirs(d)
    schema, queries = inp["schema"], inp.get("queries")

    def ordered(x):
        if isinstance(x, dict):
            items = list(x.items())
            return dict(items if order == 0 else reversed(items))
        return x
    sp, qp = genpkg.write_inputs(os.path.join(d, "in"), ordered(schema), ordered(queries), None)
    write_extra_files(inp, os.path.join(d, "in"))
    os.makedirs(os.path.join(d, "out"))
    cfg = config_for(inp, "out", os.path.relpath(sp, d), os.path.relpath(qp, d) if qp else None)
    rundir = os.path.join(d, "out") if inp.get("cwd_is_target") else d
    open(os.path.join(rundir, "pyproject.toml"), "w").write(toml.dumps(cfg))
    env = dict(os.environ, PYTHONHASHSEED=str(hashseed))
    env.pop("PYTHONPATH", None)
    cmd = ["/venv/bin/python", "-m", "ariadne_codegen"] + (["graphqlschema"] if inp["strategy"] == "graphqlschema" else [])
    r = subprocess.run(cmd, cwd=rundir, env=env, capture_output=True, text=True, timeout=300)
    if again:
        pp = os.path.join(rundir, "pyproject.toml")
        first = {k: v for k, v in hash_tree(os.path.join(d, "out")).items() if k != "pyproject.toml"}
        r2 = subprocess.run(cmd, cwd=rundir, env=env, capture_output=True, text=True, timeout=300)
        second = {k: v for k, v in hash_tree(os.path.join(d, "out")).items() if k != "pyproject.toml"}
        return first, second, ((r.stderr[-300:] if r.returncode else None) or (r2.stderr[-300:] if r2.returncode else None))
    if inp.get("cwd_is_target"):
        os.remove(os.path.join(rundir, "pyproject.toml"))
    return hash_tree(os.path.join(d, "out")), (r.stderr[-300:] if r.returncode else None)


def main(tier):
    rep = Report("C10", tier, "model_checking")
    genpkg.warm()
    bound = 1 if tier == "quick" else 2
    stats = {"runs": 0, "transitions": 0, "subprocess_runs": 0, "inputs": 0, "rewritten_set_sites": vset.STATE["sites"]}
    work = genpkg.scratch_dir("verif-c10-")
    try:
        for inp in stress_inputs(tier):
            stats["inputs"] += 1
            feats0 = {f"input:{inp['label']}", f"strategy:{inp['strategy']}"}
            runs, outputs, baseline = explore(inp, 1, None, rep, stats, feats0 | {"history:fresh"})
            stats["runs"] += runs
            # two simultaneous deviations (thorough tier) where the one-deviation space is small enough to square: the bound completed is
            # recorded per input, a larger input stays at one deviation rather than being capped half-way
            ibound = 2 if (bound >= 2 and runs <= 130) else 1
            stats.setdefault("deviation_bound_per_input", {})[inp["label"]] = ibound
            if ibound == 2:
                runs2, outputs2, _ = explore(inp, 2, None, rep, stats, feats0 | {"history:fresh"})
                stats["runs"] += runs2
                outputs.update(outputs2)
            if baseline is None or baseline.get("error"):
                continue
            pdir = os.path.join(work, "prior-" + inp["label"])
            os.makedirs(pdir)
            prior = make_prior(inp, pdir)
            if prior:
                r2, out2, base2 = explore(inp, ibound, prior, rep, stats, feats0 | {"history:regenerate"})
                stats["runs"] += r2
                if base2 and base2["hashes"] != baseline["hashes"]:
                    diff = sorted(k for k in set(base2["hashes"]) | set(baseline["hashes"]) if base2["hashes"].get(k) != baseline["hashes"].get(k))
                    rep.violation("regeneration_differs_from_fresh", feats0, f"files differ: {diff[:8]}", {"input": inp["label"], "history": "regenerate"})
            seeds = [0, 1, 2, 3, seed() % (2 ** 32)] if tier != "quick" else [0, 1, 2, (seed() + 3) % (2 ** 32)]
            for hs in dict.fromkeys(seeds):
                for order in ((0, 1) if isinstance(inp["schema"], dict) else (0,)):
                    h, err = subprocess_run(inp, hs, order, work)
                    stats["subprocess_runs"] += 1
                    desc = {"input": inp["label"], "PYTHONHASHSEED": hs, "file_creation_order": order}
                    if err or h != baseline["hashes"]:
                        diff = sorted(k for k in set(h) | set(baseline["hashes"]) if h.get(k) != baseline["hashes"].get(k))
                        key = json.dumps(h, sort_keys=True)
                        explored = key in outputs
                        rep.violation("real_run_differs_from_baseline", feats0 | {"hashseed_or_creation_order"},
                                      f"PYTHONHASHSEED={hs} order={order}: files differ {diff[:8]} {err or ''} (output also produced by the owned exploration: {explored})", desc)
            # regenerate history with REAL processes (the in-process runs share the zygote's import-time state, e.g. the import sorter's
            # idea of the working directory): first run into a fresh directory, second run over it, both in their own interpreters
            if inp.get("cwd_is_target") or inp["label"] in ("absolute_self_import", "fragment_fan", "split_files") or tier != "quick":
                first, second, err = subprocess_run(inp, 0, 0, work, again=True)
                stats["subprocess_runs"] += 2
                if err or first != second:
                    diff = sorted(k for k in set(first) | set(second) if first.get(k) != second.get(k))
                    rep.violation("regeneration_differs_from_fresh", feats0 | {"real_processes"}, f"real CLI run twice: files differ {diff[:8]} {err or ''}", {"input": inp["label"], "history": "regenerate", "real_processes": True})
            rep.sample({"input": inp["label"], "strategy": inp["strategy"], "runs": runs, "distinct_outputs": len(outputs), "choice_points_in_baseline": len(baseline["sizes"])})
        return rep.finish({
            "states": max(stats["runs"], 1), "transitions": max(stats["transitions"], 1), "traces_validated_against_impl": stats["runs"] + stats["subprocess_runs"],
            "evaluations": stats["runs"] + stats["subprocess_runs"], "distinct_nontrivial": stats["inputs"] * 2,
            "deviation_bound": bound, "exhaustive": True, **stats,
            "rule": "state = one complete generation under a choice sequence with <= bound deviations from the natural set-iteration / directory-listing order; every such sequence is executed in a fresh process",
        }, assumptions=["set iteration and Path.glob are the only order-dependent sources inside the generator (uuid/datetime excluded by the statement: comment mode other than timestamp)",
                        "permutation menu for sets larger than 3: identity, reversal, adjacent transpositions, rotations",
                        "all-default instrumented run must equal the un-instrumented PYTHONHASHSEED=0 subprocess run (checked as part of the subprocess comparison)"])
    finally:
        shutil.rmtree(work, ignore_errors=True)


def replay(path):
    rec = json.load(open(path))
    c = rec["case"]
    genpkg.warm()
    inp = next(i for i in stress_inputs("thorough") if i["label"] == c["input"])
    if "choices" in c:
        st, base = pool.run_forked(run_case, dict(input=inp, prefix=[], expect=None, prior=None))
        st2, r = pool.run_forked(run_case, dict(input=inp, prefix=c["choices"], expect=None, prior=None))
        diff = sorted(k for k in set(r["hashes"]) | set(base["hashes"]) if r["hashes"].get(k) != base["hashes"].get(k))
        print("files differing from baseline:", diff)
        return 1 if diff else 0
    print("subprocess finding; run ./check C10")
    return 1
