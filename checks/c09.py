"""C09 — pruning unused inputs and enums never removes something needed.

Enumerated: EVERY directed graph of input->input references on 2 and 3 input types (self loops and cycles included,
16 + 512 graphs) with enums attached to inputs, results, nested results, variables, fragments or nothing x operation
sets (none using inputs, one, two, with fragment) x the four combinations of include_all_inputs / include_all_enums.
Oracle: reference closure computed from schema + authored operations with graphql-core; required <= present <= allowed;
retained classes textually identical to the unpruned package; package loads; requests and accepted results identical.
"""
from __future__ import annotations

import ast
import itertools
import json
import os

import httpx
from graphql import (
    TypeInfo, TypeInfoVisitor, Visitor, build_schema, get_named_type, is_enum_type, is_input_object_type, parse, visit,
)

from mc import clients, genpkg, pool, refexec
from mc.report import Report, seed

FLAGS = [(True, True), (False, True), (True, False), (False, False)]


def make_schema(n, edges):
    """n inputs I1..In, edges = set of (i, j): Ii has a field of type Ij."""
    parts = ["enum E1 { A B }", "enum E2 { A B }", "enum E3 { A B }", "enum E4 { A B }", "enum E5 { A in }", "enum EUnused { X }", "enum EVar { V W }", "enum ES { P Q }"]
    for i in range(1, n + 1):
        fs = ["x: Int", f"e: E{i}" if i <= 2 else "y: String", "es: ES"]   # ES is shared by every input, retained or pruned
        for (a, b) in sorted(edges):
            if a == i:
                fs.append(f"to{b}: I{b}")
        if i == n:
            fs.append("elist: [E4!]")
        parts.append(f"input I{i} {{ {' '.join(fs)} }}")
    parts.append("input IUnused { z: Int eu: EUnused inner: IUnusedInner es: ES }")
    parts.append("input IUnusedInner { w: Int back: IUnused }")
    parts.append("type RN { e3: E3 v: Int }")
    parts.append("type R { id: ID e5: E5 nested: RN }")
    qs = [f"q{i}(a: I{i}): R" for i in range(1, n + 1)]
    from mc import corpus
    qs += [f"qw{k}(a: {shape.replace('T', f'I{n}')}): R" for k, shape in enumerate(corpus.SHAPES)]   # the last input behind every wrapper shape
    parts.append("type Query { q0: R qe(e: EVar): R " + " ".join(qs) + " }")
    return "\n".join(parts) + "\n"


OPSETS = {
    "none": "query Q0 { q0 { id } }\n",
    "one": "query Q0 { q0 { id } }\nquery Q1($a: I1) { q1(a: $a) { id } }\n",
    "two": "query Q1($a: I1) { q1(a: $a) { id e5 } }\nquery Q2($b: I2!) { q2(a: $b) { nested { e3 } } }\n",
    "fragment_and_var_enum": "query QF($e: EVar) { qe(e: $e) { ...RF } }\nfragment RF on R { e5 nested { e3 } }\nfragment UnusedF on RN { e3 }\n",
    # more input-typed variables (with repeats) than there are input types in the schema
    "repeated_variables": "query QR(" + ", ".join(f"$v{c}: I1" for c in "abcdefg") + ") { " + " ".join(f"r{c}: q1(a: $v{c}) {{ id }}" for c in "abcdefg") + " }\n",
    # an enum selected directly by an operation next to fragments that become classes; enums spread over several fragment classes
    "direct_enum_plus_fragment": "query QD { q0 { e5 ...RId } }\nfragment RId on R { id }\n",
    "enums_in_two_fragments": "query QT { q0 { ...RA ...RZ } }\nfragment RA on R { e5 }\nfragment RZ on R { nested { ...NZ } }\nfragment NZ on RN { e3 }\n",
    "last_input": None,  # filled per n: uses In
}


def reference_closure(schema, doc_text):
    """(required inputs, required enums given retained inputs fn, enums in fragments) from schema + authored ops."""
    doc = parse(doc_text)
    var_inputs, var_enums, result_enums, frag_enums = set(), set(), set(), set()
    for d in doc.definitions:
        if d.kind == "operation_definition":
            for v in d.variable_definitions or ():
                t = v.type
                while t.kind != "named_type":
                    t = t.type
                nt = schema.get_type(t.name.value)
                if is_input_object_type(nt):
                    var_inputs.add(nt.name)
                elif is_enum_type(nt):
                    var_enums.add(nt.name)
    ti = TypeInfo(schema)

    class V(Visitor):
        def __init__(self):
            super().__init__()
            self.in_fragment = None

        def enter_fragment_definition(self, node, *_):
            self.in_fragment = node.name.value

        def leave_fragment_definition(self, node, *_):
            self.in_fragment = None

        def enter_field(self, node, *_):
            t = ti.get_type()
            if t is not None and is_enum_type(get_named_type(t)):
                (frag_enums if self.in_fragment else result_enums).add(get_named_type(t).name)
    visit(doc, TypeInfoVisitor(ti, V()))

    def input_closure(roots):
        seen, todo = set(), list(roots)
        while todo:
            n = todo.pop()
            if n in seen:
                continue
            seen.add(n)
            for f in schema.type_map[n].fields.values():
                nt = get_named_type(f.type)
                if is_input_object_type(nt):
                    todo.append(nt.name)
        return seen

    def enums_of_inputs(inputs):
        out = set()
        for n in inputs:
            for f in schema.type_map[n].fields.values():
                nt = get_named_type(f.type)
                if is_enum_type(nt):
                    out.add(nt.name)
        return out
    return input_closure(var_inputs), var_enums, result_enums, frag_enums, enums_of_inputs


def class_sources(path):
    src = open(path).read()
    tree = ast.parse(src)
    return {n.name: ast.get_source_segment(src, n) for n in tree.body if isinstance(n, ast.ClassDef)}


def evaluate(case):
    schema_text, queries, flags = case["schema"], case["queries"], case["flags"]
    schema = build_schema(schema_text)
    out = {"status": "ok"}
    with genpkg.scratch() as d:
        try:
            pkg, pdir, _ = genpkg.generate(d, schema_text, queries, {"include_all_inputs": flags[0], "include_all_enums": flags[1]})
        except genpkg.GenError as e:
            out.update(status="gen_error", error=str(e), error_type=e.exc_type)
            return out
        out["inputs"] = class_sources(os.path.join(pdir, "input_types.py"))
        out["enums"] = class_sources(os.path.join(pdir, "enums.py"))
        try:
            mod, mods = genpkg.import_package(d, pkg)
        except BaseException as e:  # noqa
            out.update(status="import_error", error=f"{type(e).__name__}: {str(e)[:300]}", error_type=type(e).__name__)
            return out
        # behaviour: one call per operation with fixed arguments, default reference response
        doc = parse(queries)
        beh = {}
        for op in [x for x in doc.definitions if x.kind == "operation_definition"]:
            name = op.name.value
            kwargs = {}
            try:
                for v in op.variable_definitions or ():
                    t = v.type
                    while t.kind != "named_type":
                        t = t.type
                    tn = t.name.value
                    vn = v.variable.name.value
                    gt = schema.type_map[tn]
                    if is_input_object_type(gt):
                        cls = getattr(mod, tn)
                        kw = {"x": 1}
                        if "e" in cls.model_fields:
                            kw["e"] = list(getattr(mod, get_named_type(gt.fields["e"].type).name))[0]
                        kwargs[vn] = cls(**kw)
                    else:
                        kwargs[vn] = list(getattr(mod, tn))[1]
                    # (list-typed variables: wrap the value as deep as the variable's type says)
                    t2, depth = v.type, 0
                    while t2.kind != "named_type":
                        depth += t2.kind == "list_type"
                        t2 = t2.type
                    for _ in range(depth):
                        kwargs[vn] = [kwargs[vn]]
                captured = {}

                def handler(request):
                    body = json.loads(request.content)
                    captured["body"] = body
                    res, _ = refexec.execute(schema, body["query"], body.get("variables") or {}, lambda n, l=None: 0, operation_name=body.get("operationName"))
                    return httpx.Response(200, json={"data": res.data})
                c = clients.make_client(mod.Client, True, handler)
                from ariadne_codegen.utils import str_to_snake_case
                r = clients.call(True, getattr(c, str_to_snake_case(name)), **kwargs)
                beh[name] = {"request": captured.get("body"), "result": r.model_dump(mode="json", by_alias=True)}
            except BaseException as e:  # noqa
                beh[name] = {"error": f"{type(e).__name__}: {str(e)[:200]}"}
        out["behaviour"] = beh
    return out


def graphs(n):
    pairs = [(i, j) for i in range(1, n + 1) for j in range(1, n + 1)]
    for r in range(len(pairs) + 1):
        for es in itertools.combinations(pairs, r):
            yield frozenset(es)


def build_groups(tier):
    groups = []
    for n in (2, 3):
        gs = list(graphs(n))
        for gi, edges in enumerate(gs):
            opsets = dict(OPSETS)
            opsets["last_input"] = f"query QL($a: I{n}) {{ q{n}(a: $a) {{ id }} }}\n"
            names = list(opsets)
            if n == 3 and tier == "quick":
                names = [names[(gi + seed()) % len(names)], "one"] if gi % 2 == 0 else [names[(gi + seed()) % len(names)]]
            for on in dict.fromkeys(names):
                groups.append(dict(n=n, edges=sorted(edges), opset=on, schema=make_schema(n, edges), queries=opsets[on]))
            # enum / input NAMES whose case-sensitive, case-insensitive and snake/Pascal orders all differ (acronyms next to ordinary names)
            if (n == 2 and tier != "quick") or (n == 2 and gi % 4 == seed() % 4) or (n == 3 and gi % 64 == seed() % 64):
                ren = {"E1": "Unit", "E2": "URLKind", "E3": "order_by", "E4": "HTTPMethod", "E5": "Height", "EVar": "UserZone", "ES": "Users", "EUnused": "userUnused", "I1": "inputA", "I2": "InputB", "I3": "INPUTC"}
                import re as _re
                sub = lambda t: _re.sub(r"\b(E[1-5]|EVar|ES|EUnused|I[1-3])\b", lambda m: ren[m.group(1)], t)
                for on in ("two", "fragment_and_var_enum", "last_input", "enums_in_two_fragments"):
                    groups.append(dict(n=n, edges=sorted(edges), opset=on + "+mixed_case_names", schema=sub(make_schema(n, edges)), queries=sub(opsets[on])))
            # the only variable that reaches the last input is wrapped in every list / non-null shape (three representative graphs)
            if n == 2 and sorted(edges) in ([], [(2, 1)], [(1, 2), (2, 1)]):
                from mc import corpus
                for k, shape in enumerate(corpus.SHAPES):
                    if tier == "quick" and shape.count("[") < 1 + (sorted(edges) != [(2, 1)]):
                        continue
                    groups.append(dict(n=n, edges=sorted(edges), opset=f"wrapped_variable:{shape}", schema=make_schema(n, edges),
                                       queries=f"query QW($a: {shape.replace('T', 'I2')}) {{ qw{k}(a: $a) {{ id }} }}\n"))
    return groups


def main(tier):
    rep = Report("C09", tier, "exploration")
    genpkg.warm()
    groups = build_groups(tier)
    cases = [dict(schema=g["schema"], queries=g["queries"], flags=f) for g in groups for f in FLAGS]
    results = pool.run_cases(evaluate, cases, timeout=300, progress=2000)
    evals = 0
    distinct = set()
    for gi, g in enumerate(groups):
        res = {f: results[gi * 4 + k] for k, f in enumerate(FLAGS)}
        schema = build_schema(g["schema"])
        req_inputs, var_enums, result_enums, frag_enums, enums_of = reference_closure(schema, g["queries"])
        all_inputs = {n for n, t in schema.type_map.items() if is_input_object_type(t)}
        all_enums = {n for n, t in schema.type_map.items() if is_enum_type(t) and not n.startswith("__")}
        cyc = any(a == b for a, b in g["edges"]) or any((b, a) in {tuple(e) for e in g["edges"]} for a, b in g["edges"] if a != b)
        feats = {f"n:{g['n']}", f"opset:{g['opset']}", f"edges:{len(g['edges'])}", "cycle" if cyc else "acyclic"}
        desc = {"inputs": g["n"], "edges": g["edges"], "opset": g["opset"], "schema": g["schema"], "queries": g["queries"]}
        base_st, base = res[(True, True)]
        if rep.triage:
            rep.seen(feats)
        if base_st != "ok" or base["status"] != "ok":
            rep.violation("unpruned_package_fails", feats, str(base)[:400], desc)
            continue
        for f in FLAGS:
            evals += 1
            st, r = res[f]
            fdesc = dict(desc, include_all_inputs=f[0], include_all_enums=f[1])
            ff = feats | {f"all_inputs={f[0]}", f"all_enums={f[1]}"}
            if st != "ok":
                rep.violation("harness_" + st, ff, str(r)[:400], fdesc)
                continue
            if r["status"] != "ok":
                rep.violation(f"pruned_package_{r['status']}:{r.get('error_type')}", ff, r["error"], fdesc)
                continue
            retained_inputs = all_inputs if f[0] else req_inputs
            present_inputs = set(r["inputs"])
            if f[0]:
                if present_inputs != all_inputs:
                    rep.violation("inputs_not_all_present", ff, f"present {sorted(present_inputs)} all {sorted(all_inputs)}", fdesc)
            else:
                if not req_inputs <= present_inputs:
                    rep.violation("needed_input_pruned", ff, f"required {sorted(req_inputs)} present {sorted(present_inputs)}", fdesc)
                if not present_inputs <= req_inputs:
                    rep.violation("unneeded_input_retained", ff, f"present {sorted(present_inputs)} required {sorted(req_inputs)}", fdesc)
            req_enums = var_enums | result_enums | frag_enums_emitted(g["queries"], schema, frag_enums) | enums_of(retained_inputs & present_inputs | (retained_inputs if f[0] else req_inputs))
            allowed = req_enums | frag_enums
            present_enums = set(r["enums"])
            if f[1]:
                if present_enums != all_enums:
                    rep.violation("enums_not_all_present", ff, f"present {sorted(present_enums)} all {sorted(all_enums)}", fdesc)
            else:
                if not req_enums <= present_enums:
                    rep.violation("needed_enum_pruned", ff, f"required {sorted(req_enums)} present {sorted(present_enums)}", fdesc)
                if not present_enums <= allowed:
                    rep.violation("unneeded_enum_retained", ff, f"present {sorted(present_enums)} allowed {sorted(allowed)}", fdesc)
            for kind in ("inputs", "enums"):
                for name, src in r[kind].items():
                    if base[kind].get(name) != src:
                        rep.violation("retained_class_differs", ff, f"{kind}.{name}: {src!r} vs unpruned {base[kind].get(name)!r}", fdesc)
            if r["behaviour"] != base["behaviour"]:
                rep.violation("behaviour_differs", ff, f"pruned {json.dumps(r['behaviour'])[:300]} unpruned {json.dumps(base['behaviour'])[:300]}", fdesc)
            for opn, b in r["behaviour"].items():
                if "error" in b:
                    rep.violation("operation_unusable", ff, f"{opn}: {b['error']}", fdesc)
        distinct.add((g["n"], tuple(map(tuple, g["edges"])), g["opset"]))
        if len(rep.samples) < 3 and len(g["edges"]) == 4:
            rep.sample({"input_edges": g["edges"], "opset": g["opset"], "required_inputs": sorted(req_inputs), "result_enums": sorted(result_enums), "variable_enums": sorted(var_enums)})
    return rep.finish({
        "evaluations": evals, "distinct_nontrivial": len(distinct),
        "rule": "group = (input reference graph, operation set); every directed graph on 2 and 3 inputs incl. self loops and cycles; evaluation = one flag combination of a group compared with the reference "
                "closure and with the unpruned package (class sources, requests, accepted results)",
        "exhaustive": True, "graphs_2_inputs": 16, "graphs_3_inputs": 512, "groups": len(groups),
    }, assumptions=["reference closure uses graphql-core TypeInfo over the authored operations; enums of defined-but-unspread fragments are allowed but not required"])


def frag_enums_emitted(queries, schema, frag_enums):
    """Enums selected in fragments that are spread by some operation (those are emitted or unpacked: required)."""
    doc = parse(queries)
    frs = {d.name.value: d for d in doc.definitions if d.kind == "fragment_definition"}
    used, todo = set(), []

    def spreads(ss, acc):
        for s in ss.selections:
            if s.kind == "fragment_spread":
                acc.append(s.name.value)
            elif getattr(s, "selection_set", None):
                spreads(s.selection_set, acc)
    for d in doc.definitions:
        if d.kind == "operation_definition":
            spreads(d.selection_set, todo)
    while todo:
        n = todo.pop()
        if n in used or n not in frs:
            continue
        used.add(n)
        spreads(frs[n].selection_set, todo)
    out = set()
    ti = TypeInfo(schema)

    class V(Visitor):
        def enter_field(self, node, *_):
            t = ti.get_type()
            if t is not None and is_enum_type(get_named_type(t)):
                out.add(get_named_type(t).name)
    for n in used:
        visit(frs[n], TypeInfoVisitor(ti, V()))
    return out


def replay(path):
    rec = json.load(open(path))
    c = rec["case"]
    genpkg.warm()
    for f in FLAGS:
        st, r = pool.run_forked(evaluate, dict(schema=c["schema"], queries=c["queries"], flags=f))
        print(f, st, {k: (sorted(v) if isinstance(v, dict) and k in ("inputs", "enums") else v) for k, v in (r or {}).items() if k != "behaviour"} if st == "ok" else r)
    return 1
