"""C02 — the document sent is the document written.

Enumerated: (i) the operation grammar over K, (ii) every literal class x placement (+ pairs), (iii) all fragment DAGs
up to n fragments x type assignments x root configurations, (iv) (ii)+(iii) again under ExtractOperationsPlugin.
Oracle (mc/opcheck.check_c02): sent text parses, validates under the full rule set, single operation, operationName,
AST-equal to the authored operation after undoing the two documented rewrites, fragment set == reachable closure.
"""
from __future__ import annotations

import json
import re

from graphql import NoUnusedFragmentsRule, build_schema, parse, specified_rules, validate

from mc import corpus, corpus2, features, genpkg, opcheck, pool
from mc.report import Report

EXTRACT = "ariadne_codegen.contrib.extract_operations.ExtractOperationsPlugin"
RULES = [r for r in specified_rules if r is not NoUnusedFragmentsRule]


def valid_input(schema, doc_text):
    try:
        return not validate(schema, parse(doc_text), RULES)
    except Exception:  # noqa
        return False


def build_cases(tier):
    cases = []
    K, L = corpus.schema_k(), build_schema(corpus2.SCHEMA_L)
    singles = {"node": 1, "u": 1, "user": 1, "named": 1, "nodes": 1, "ul": 1, "userReq": 1, "aliased_top": 1}
    ops = list(corpus.enumerate_ops(singles, rich=True, validate_ops=False))
    ops += [o for o in corpus.enumerate_ops({"node": 2, "u": 2, "user": 2}, rich=(tier != "quick"), validate_ops=False) if "k2" in o.tags]
    for o in ops:
        cases.append(dict(family="grammar", schema=corpus.SCHEMA_K, doc_text=o.doc_text, ops=[{"name": o.name, "kwargs": {"v": True} if o.uses_var else {}}],
                          tags=None, options={}))
    for name, doc, tags in corpus2.literal_ops(pairs=True):
        for plug in (False, True):
            cases.append(dict(family="literal", schema=corpus2.SCHEMA_L, doc_text=doc, ops=[{"name": name, "kwargs": {}}], tags=set(tags) | ({"extract_plugin"} if plug else set()),
                              options={"plugins": [EXTRACT]} if plug else {}))
        # the four base clients (and the traced paths of the OpenTelemetry ones) hand the string to the transport separately
        if "literal_pair" not in tags and "place:arg" in tags:
            for cfg, tr in (({"async_client": False}, "none"), ({"async_client": False, "opentelemetry_client": True}, "stub"), ({"opentelemetry_client": True}, "stub")):
                cases.append(dict(family="literal", schema=corpus2.SCHEMA_L, doc_text=doc, ops=[{"name": name, "kwargs": {}}], tags=set(tags) | {f"cfg:{k}" for k in cfg} | ({f"tracer:{tr}"} if tr != "none" else set()),
                                  options=dict(cfg), tracer=tr))
    MIX = "class MixinA:\n    pass\n\n\nclass MixinB:\n    pass\n"
    mixin_ops = {
        "mixin_on_field": 'query MixF { user @mixin(from: ".mixins", import: "MixinA") { id friend @mixin(from: ".mixins", import: "MixinB") { id } } }\n',
        "mixin_twice_on_field": 'query MixT { user @mixin(from: ".mixins", import: "MixinA") @mixin(from: ".mixins", import: "MixinB") @include(if: true) { id } }\n',
        "mixin_with_alias_and_directives": 'query MixA($v: Boolean = true) { boss: user @include(if: $v) @mixin(from: ".mixins", import: "MixinA") { uid: id pal: friend @mixin(from: ".mixins", import: "MixinB") @skip(if: false) { id } } }\n',
        "mixin_aliased_in_fragment": 'query MixAF { user { ...FAM } }\nfragment FAM on User { id bestie: friend @mixin(from: ".mixins", import: "MixinB") { fid: id } }\n',
        "mixin_on_fragment_definition": 'query MixD { user { ...FM } }\nfragment FM on User @mixin(from: ".mixins", import: "MixinA") { id name }\n',
        "mixin_inside_fragment_field": 'query MixI { user { ...FI } }\nfragment FI on User { id friend @mixin(from: ".mixins", import: "MixinB") { id } }\n',
        "mixin_field_shared_by_two_ops": 'query MixS1 { user @mixin(from: ".mixins", import: "MixinA") { ...FS } }\nquery MixS2 { userReq { ...FS } }\nfragment FS on User { id friend @mixin(from: ".mixins", import: "MixinB") { id } }\n',
    }
    for label, q in mixin_ops.items():
        for plug in (False, True):
            names = [d.name.value for d in parse(q).definitions if d.kind == "operation_definition"]
            cases.append(dict(family="mixin", schema=corpus.SCHEMA_K, doc_text=q, ops=[{"name": n, "kwargs": {}} for n in names], tags={f"mixin:{label}"} | ({"extract_plugin"} if plug else set()),
                              options=dict({"files_to_include": ["@mixins.py"]}, **({"plugins": [EXTRACT]} if plug else {})), files={"mixins.py": MIX}))
    for label, (opn, q) in corpus2.LOCAL_NAME_OPS.items():
        for cfg in ({}, {"async_client": False}, {"plugins": [EXTRACT]}, {"opentelemetry_client": True}, {"opentelemetry_client": True, "tracer": "noop"},
                    {"opentelemetry_client": True, "tracer": "stub"}, {"opentelemetry_client": True, "async_client": False, "tracer": "stub"}):
            sub = label.startswith("subscription")
            if sub and cfg.get("async_client") is False:
                continue
            cfg = dict(cfg)
            tracer = cfg.pop("tracer", "none")
            cases.append(dict(family="local_names", schema=corpus2.SCHEMA_L, doc_text=q + "\n", ops=[{"name": opn, "kwargs": corpus2.LOCAL_NAME_KWARGS[opn], "subscription": sub}],
                              tags={f"localnames:{label}"} | {f"cfg:{k}" for k in cfg} | ({f"tracer:{tracer}"} if tracer != "none" else set()), options=cfg, tracer=tracer))
    # several operations in one package, each with its own fragments: nothing of one operation may leak into another's document
    PAIR_OPS = ["query PA { user { ...FUser } }", "query PB { u { ...FU } }", "query PC { node { ...FNodeInl } }", "query PD { user { ...FNested } }",
                "query PE { user { id } }", "query PF { node { ...FNode } }", "query PG { user { ...FNode } }", "query PH { ul { ...FAdmin ... on User { id } } }",
                "query PI { named { ...FNamed } }", "mutation PM { __typename }"]
    PAIR_OPS = [q for q in PAIR_OPS if valid_input(K, q + "\n" + "\n".join(f[1] for f in corpus.FRAGMENTS.values()))]
    allfr = "\n".join(f[1] for f in corpus.FRAGMENTS.values())

    def used(qs):
        names = set()
        for q in qs:
            names |= corpus.frag_closure(set(re.findall(r"\.\.\.(F\w+)", q)))
        return "\n".join(corpus.FRAGMENTS[n][1] for n in sorted(names))
    import itertools
    for a, b in itertools.permutations(PAIR_OPS, 2):
        doc = a + "\n" + b + "\n" + used([a, b]) + "\n"
        for plug in (False, True):
            cases.append(dict(family="op_pairs", schema=corpus.SCHEMA_K, doc_text=doc, ops=[{"name": q.split()[1], "kwargs": {}} for q in (a, b)],
                              tags={"op_pairs", f"pair:{a.split()[1]}>{b.split()[1]}"} | ({"extract_plugin"} if plug else set()), options={"plugins": [EXTRACT]} if plug else {}))
    if tier != "quick":
        for tri in itertools.permutations(PAIR_OPS[:7], 3):
            doc = "\n".join(tri) + "\n" + used(tri) + "\n"
            cases.append(dict(family="op_pairs", schema=corpus.SCHEMA_K, doc_text=doc, ops=[{"name": q.split()[1], "kwargs": {}} for q in tri],
                              tags={"op_pairs", "op_triple"}, options={}))
    # second schema family: typed spread matrix, one fragment at two positions of one operation, two operations sharing a fragment
    for o in corpus.k2_ops() + corpus.k2_matrix():
        names = [d.name.value for d in parse(o.doc_text).definitions if d.kind == "operation_definition"]
        from mc.corpus import k2_kwargs
        cases.append(dict(family="k2", schema=corpus.SCHEMA_K2, doc_text=o.doc_text, ops=[{"name": n, "kwargs": (k2_kwargs(o)[0] if n == o.name else {})} for n in names],
                          tags=set(t for t in o.tags if t != "family:K2"), options={}))
    graph_sets = [(2, FT4), (3, ("User", "Node"))] if tier == "quick" else [(2, FT4), (3, ("User", "Node", "Named")), (4, ("User", "Node"))]
    for nf, ts in graph_sets:
        for g in corpus2.fragment_graphs(nf, ts):
            if not valid_input(K, g["doc_text"]):
                continue
            for plug in ((False, True) if nf <= 3 else (False,)):
                cases.append(dict(family="fragment_graph", schema=corpus.SCHEMA_K, doc_text=g["doc_text"], ops=[{"name": n, "kwargs": {}} for n in g["ops"]],
                                  tags=set(g["tags"]) | ({"extract_plugin"} if plug else set()), options={"plugins": [EXTRACT]} if plug else {}))
    return cases


FT4 = ("User", "Node", "Named", "U")


def main(tier):
    rep = Report("C02", tier, "exploration")
    genpkg.warm()
    K = corpus.schema_k()
    cases = build_cases(tier)
    payload = [dict(schema=c["schema"], doc_text=c["doc_text"], ops=c["ops"], options=c["options"], files=c.get("files"), tracer=c.get("tracer", "none")) for c in cases]
    results = pool.run_cases(opcheck.capture_requests, payload, timeout=300, progress=1000)
    stats = {"cases": len(cases), "requests_checked": 0, "generation_failures": 0, "invalid_inputs_skipped": 0, "plugin_pairs_compared": 0}
    fam = {}
    distinct = set()
    by_doc = {}
    for c, (st, r) in zip(cases, results):
        fam[c["family"]] = fam.get(c["family"], 0) + 1
        desc = {"family": c["family"], "schema": "K" if c["schema"] is corpus.SCHEMA_K else "K2" if c["schema"] is corpus.SCHEMA_K2 else "L", "query": c["doc_text"], "options": c["options"],
                "ops": c["ops"], "files": c.get("files"), "tracer": c.get("tracer", "none")}
        schema = K if c["schema"] is corpus.SCHEMA_K else None

        def F():
            f = set(c["tags"] or ())
            if c["family"] in ("grammar", "fragment_graph", "op_pairs"):
                f |= features.op_features(K, c["doc_text"])
            if c["family"] == "k2":
                f |= features.op_features(corpus.schema_k2(), c["doc_text"])
            return f
        if rep.triage:
            rep.seen(F())
        if st != "ok":
            rep.violation("harness_" + st, F(), str(r)[:500], desc)
            continue
        if r["status"] != "ok":
            if c["family"] == "grammar" and not valid_input(K, c["doc_text"]):
                stats["invalid_inputs_skipped"] += 1
                continue
            stats["generation_failures"] += 1
            if c["family"] not in ("literal", "mixin", "local_names"):
                continue  # generation/import failures of grammar, K2 and fragment-graph inputs are C01/C04/C08's subject
            rep.violation(f'{r["status"]}:{r.get("gen_error_type")}', F(), r["gen_error"], desc)
            continue
        if c["family"] == "grammar" and not valid_input(K, c["doc_text"]):
            stats["invalid_inputs_skipped"] += 1
            continue
        stats["requests_checked"] += len(r["ops"])
        for opn, info in r["ops"].items():
            distinct.add(info["query"])
        for opn, clause, detail in r["problems"]:
            rep.violation(clause, F(), detail, dict(desc, operation=opn, sent=(r["ops"].get(opn) or {}).get("query")))
        key = (c["doc_text"], c["family"])
        if c["family"] in ("literal", "fragment_graph", "mixin") and set(c["options"]) <= {"plugins", "files_to_include"}:
            by_doc.setdefault(key, {})[bool(c["options"].get("plugins"))] = (c, r)
        if len(rep.samples) < 5 and c["family"] != "grammar" and r["ops"]:
            rep.sample({"family": c["family"], "authored": c["doc_text"], "sent": next(iter(r["ops"].values()))["query"], "plugins": c["options"].get("plugins", [])})
    # ExtractOperations: plugged client must send the same document as the unplugged one, and the constants of
    # the operations module must be those documents
    for key, d in by_doc.items():
        if True in d and False in d:
            (cp, rp), (cu, ru) = d[True], d[False]
            stats["plugin_pairs_compared"] += 1
            for opn, info in ru["ops"].items():
                pi = rp["ops"].get(opn)
                if pi is None:
                    continue
                try:
                    same = opcheck.norm_ast(parse(pi["query"])) == opcheck.norm_ast(parse(info["query"]))
                except Exception:  # noqa
                    same = pi["query"] == info["query"]
                if not same:
                    rep.violation("extract_plugin_changes_document", set(cp["tags"] or ()), f"plugged: {pi['query']!r} unplugged: {info['query']!r}",
                                  {"family": cp["family"], "query": cp["doc_text"], "options": cp["options"], "operation": opn})
                consts = rp.get("operations_constants") or {}
                if pi["query"] not in consts.values():
                    rep.violation("extract_plugin_constant_not_sent", set(cp["tags"] or ()), f"sent query is none of the constants {sorted(consts)}",
                                  {"family": cp["family"], "query": cp["doc_text"], "options": cp["options"], "operation": opn})
    return rep.finish({
        "evaluations": stats["requests_checked"],
        "distinct_nontrivial": len(distinct),
        "rule": "evaluation = one captured request of a generated method, checked against the authored operation; inputs = operation grammar over K (singles+pairs), "
                "every literal class x placement and all literal pairs, all fragment DAGs x type assignments x root configurations, the latter two also under ExtractOperationsPlugin; "
                "distinct_nontrivial = distinct sent query texts",
        "exhaustive": True,
        "cases_by_family": fam,
        "literal_classes": sorted(corpus2.LITERALS),
        "placements": sorted(corpus2.PLACEMENTS),
        **stats,
    }, assumptions=["block-string vs quoted-string representation is not part of AST equality (values are compared)",
                    "fragment definition order after the operation is not constrained"])


def replay(path):
    rec = json.load(open(path))
    c = rec["case"]
    genpkg.warm()
    schema_text = corpus.SCHEMA_K if c.get("schema") == "K" else corpus.SCHEMA_K2 if c.get("schema") == "K2" else corpus2.SCHEMA_L
    doc = parse(c["query"])
    ops = c.get("ops") or [{"name": d.name.value, "kwargs": {"v": True} if "$v" in c["query"] else {}} for d in doc.definitions if d.kind == "operation_definition"]
    st, r = pool.run_forked(opcheck.capture_requests, dict(schema=schema_text, doc_text=c["query"], ops=ops, options=c.get("options") or {}, files=c.get("files"),
                                                            tracer=c.get("tracer", "none")))
    print(st, (r or {}).get("status"), (r or {}).get("gen_error"))
    hits = [p for p in (r or {}).get("problems", []) if p[1] == rec["clause"]]
    for p in hits[:5]:
        print("  ", p)
    bad = st != "ok" or (r["status"] != "ok" and rec["clause"].startswith(r["status"])) or hits
    return 1 if bad else 0
