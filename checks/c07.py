"""C07 — custom scalars are parsed and serialised exactly once per occurrence.

Enumerated: scalar configuration {type only, +parse, +serialize, +both} x import style {relative via files_to_include,
absolute dotted module, deprecated import key} x positions {result field in 14 wrapper shapes, nested object, fragment
(mixin and unpacked), variable in 14 shapes, input field in 14 shapes, nested input} x values / executor responses.
Oracle: call log of instrumented parse/serialize functions vs the non-null occurrences in response / arguments.
"""
from __future__ import annotations

import json
import sys
from collections import Counter

import httpx
from graphql import build_schema, get_named_type, is_list_type, is_non_null_type

from mc import clients, corpus, genpkg, inputs, pool, refexec
from mc.explorer import Explorer
from mc.report import Report

SCALARS_MOD = '''
CALLS = []


class MyScalar:
    def __init__(self, raw):
        self.raw = raw

    def __eq__(self, other):
        return isinstance(other, MyScalar) and other.raw == self.raw

    def __hash__(self):
        return hash(self.raw)

    def __repr__(self):
        return f"MyScalar({self.raw!r})"

    def __bool__(self):
        # a valid, non-null value may be falsy (like 0, "" or timedelta(0)): the second value of every menu is
        return bool(self.raw)


def parse_sc(value):
    CALLS.append(("parse", repr(value)))
    if isinstance(value, MyScalar):
        return value
    return MyScalar(value)


def serialize_sc(value):
    CALLS.append(("serialize", repr(value)))
    return value.raw if isinstance(value, MyScalar) else value


class Money:
    """its own parser: configured as type AND parse"""
    def __init__(self, raw):
        CALLS.append(("parse", repr(raw)))
        self.raw = raw

    def __eq__(self, other):
        return isinstance(other, Money) and other.raw == self.raw

    def __hash__(self):
        return hash(self.raw)

    def __repr__(self):
        return f"Money({self.raw!r})"


def parse_sc2(value):
    CALLS.append(("parse2", repr(value)))
    if isinstance(value, MyScalar):
        return value
    return MyScalar(value)


def serialize_sc2(value):
    CALLS.append(("serialize2", repr(value)))
    return value.raw if isinstance(value, MyScalar) else value
'''


def schema_text():
    shapes = corpus.SHAPES
    r = "\n".join(f"  r{i}: {s.replace('T', 'Sc')}" for i, s in enumerate(shapes))
    ins = "\n".join(f"input I{i} {{ f: {s.replace('T', 'Sc')} other: Int }}" for i, s in enumerate(shapes))
    q = "\n".join(f"  v{i}(x: {s.replace('T', 'Sc')}): String\n  in{i}(x: I{i}): String" for i, s in enumerate(shapes))
    return f"""
scalar Sc
scalar Sc2
scalar Plain
type RN {{ sc: Sc scs: [Sc!] }}
input IBoth {{ a: Sc b: Sc2 bs: [Sc2!] }}
input Outer2 {{ inner: I0 other: Int }}
input Outer3 {{ o: Outer2 label: String }}
interface Node {{ id: ID! sc: Sc }}
type A implements Node {{ id: ID! sc: Sc extra: [Sc] }}
type B implements Node {{ id: ID! sc: Sc other: Int }}
type R {{
{r}
  nested: RN
  plain: Plain
  s2: Sc2
  s2l: [Sc2!]
  node: Node
  nodes: [Node!]!
  nodeReq: Node!
}}
{ins}
input Outer {{ inner: I0 many: [I5!] sc: Sc! plain: Plain }}
type Query {{
  r: R
{q}
  outer(x: Outer): String
  top: Sc
  tops: [Sc!]
  topReq: Sc!
  two(a: Sc, b: [Sc!], p: Plain): String
  two2(a: Sc, b: Sc2, i: IBoth): String
  outer2(x: Outer2, y: Outer3): String
}}
"""


SCHEMA = schema_text()
_schema = None


def get_schema():
    global _schema
    if _schema is None:
        _schema = build_schema(SCHEMA)
    return _schema


IMPORT_STYLES = ("relative", "absolute", "deprecated_import_key")
CONFIGS = ("type_only", "parse", "serialize", "both", "parse_is_type")


def scalar_section(cfg, style):
    sec, _ = _scalar_section(cfg, style)
    sc2 = dict(sec["Sc"])
    for k in ("parse", "serialize"):
        if k in sc2 and cfg != "parse_is_type":
            sc2[k] = sc2[k] + "2"
    sec["Sc2"] = sc2
    return sec, {}


def _scalar_section(cfg, style):
    if cfg == "type_only":
        return {"Sc": {"type": "datetime.datetime"}}, {}
    mod = {"relative": ".scalars_mod", "absolute": "abs_scalars_mod", "deprecated_import_key": ".scalars_mod"}[style]
    pre = "" if style == "deprecated_import_key" else mod + "."
    if cfg == "parse_is_type":
        sec = {"type": pre + "Money", "parse": pre + "Money"}
        if style == "deprecated_import_key":
            sec["import"] = mod
        return {"Sc": sec}, {}
    sec = {"type": pre + "MyScalar"}
    if cfg in ("parse", "both"):
        sec["parse"] = pre + "parse_sc"
    if cfg in ("serialize", "both"):
        sec["serialize"] = pre + "serialize_sc"
    if style == "deprecated_import_key":
        sec["import"] = mod
    return {"Sc": sec}, {}


def result_ops():
    ops = [(f"R{i}", f"query R{i} {{ r {{ r{i} }} }}\n", {f"shape:{s}", "pos:result"}) for i, s in enumerate(corpus.SHAPES)]
    ops.append(("RNest", "query RNest { r { r0 nested { sc scs } plain } }\n", {"pos:nested_result"}))
    ops.append(("RFrag", "query RFrag { r { ...F nested { ...FN } } }\nfragment F on R { r0 r5 }\nfragment FN on RN { sc scs }\n", {"pos:fragment_mixin"}))
    ops.append(("RUnp", "query RUnp { r { node { id ...FA } } }\nfragment FA on A { sc extra }\n", {"pos:fragment_unpacked"}))
    ops.append(("RBoth", "query RBoth { r { r0 s2 s2l nested { sc } } }\n", {"pos:two_scalars_same_type"}))
    ops.append(("RBoth2", "query RBoth2 { r { s2l r5 } }\nquery ROnly2 { r { s2 } }\n", {"pos:two_scalars_same_type"}))
    ops.append(("Top", "query Top { top }\n", {"pos:top_level_scalar"}))
    ops.append(("Tops", "query Tops { tops }\nquery TopOther { r { plain } }\n", {"pos:top_level_scalar"}))
    ops.append(("TopReq", "query TopOther { r { plain } }\nquery TopReq { topReq }\n", {"pos:top_level_scalar"}))
    ops.append(("RInh", "query RInh { r { node { ...FBase } } }\nquery RInh2 { r { nodeReq { ... on A { ...FScal } } } }\nfragment FBase on Node { id ...FScal }\nfragment FScal on Node { sc }\n",
                {"pos:fragment_inherited_and_unpacked"}))
    ops.append(("RAbs", "query RAbs { r { node { id sc ... on A { extra } ... on B { other } } nodes { sc ... on A { id } ... on B { id } } nodeReq { sc ... on A { id } ... on B { id } } } }\n", {"pos:abstract_members"}))
    return ops


def arg_ops():
    ops = [(f"V{i}", f"query V{i}($x: {s.replace('T', 'Sc')}) {{ v{i}(x: $x) }}\n", [("x", s.replace("T", "Sc"))], {f"shape:{s}", "pos:variable"}) for i, s in enumerate(corpus.SHAPES)]
    ops += [(f"In{i}", f"query In{i}($x: I{i}) {{ in{i}(x: $x) }}\n", [("x", f"I{i}")], {f"shape:{s}", "pos:input_field"}) for i, s in enumerate(corpus.SHAPES)]
    ops.append(("OuterOp", "query OuterOp($x: Outer) { outer(x: $x) }\n", [("x", "Outer")], {"pos:nested_input"}))
    ops.append(("Two", "query Two($a: Sc, $b: [Sc!], $p: Plain) { two(a: $a, b: $b, p: $p) }\n", [("a", "Sc"), ("b", "[Sc!]"), ("p", "Plain")], {"pos:multi_variable"}))
    ops.append(("Both", "query Both($a: Sc, $b: Sc2, $i: IBoth) { two2(a: $a, b: $b, i: $i) }\n", [("a", "Sc"), ("b", "Sc2"), ("i", "IBoth")], {"pos:two_scalars_same_type"}))
    ops.append(("Outer2Op", "query Outer2Op($x: Outer2) { outer2(x: $x) }\n", [("x", "Outer2")], {"pos:scalar_only_in_nested_input"}))
    ops.append(("Outer3Op", "query Outer3Op($y: Outer3) { outer2(y: $y) }\n", [("y", "Outer3")], {"pos:scalar_only_in_nested_input"}))
    ops.append(("ReqA", "query ReqA($a: Sc!) { two(a: $a) }\nquery ReqB($a: Sc!, $c: Sc!) { two(a: $a) t2: two(a: $c) }\nquery ReqC($z: Sc!) { two(a: $z) }\n", [("a", "Sc!")], {"pos:several_operations"},
                [("ReqA", [("a", "Sc!")]), ("ReqB", [("a", "Sc!"), ("c", "Sc!")]), ("ReqC", [("z", "Sc!")])]))
    return ops


def sc_occurrences_in_data(schema, doc, variables, data, scalar="Sc"):
    """Raw non-null occurrences of Sc in a response (multiset), with paths."""
    occ = []
    for pos in refexec.walk(schema, doc, variables, data):
        if not isinstance(pos.data, dict):
            continue
        for key, (nodes, fdef) in pos.fields.items():
            if fdef is None or key not in pos.data or get_named_type(fdef.type).name != scalar:
                continue

            def flat(v, path):
                if v is None:
                    return
                if isinstance(v, list):
                    for i, x in enumerate(v):
                        flat(x, path + (i,))
                else:
                    occ.append((path, v))
            flat(pos.data[key], pos.path + (key,))
    return occ


def spec_sc_occurrences(spec, out, scalar="Sc"):
    k = spec[0]
    if k == "custom" and spec[1] == scalar:
        out.append(spec[2])
    elif k == "list":
        for x in spec[1]:
            spec_sc_occurrences(x, out, scalar)
    elif k == "input":
        for _, v in spec[2]:
            spec_sc_occurrences(v, out, scalar)


def evaluate(case):
    import datetime
    from mc.opcheck import get_at
    cfg, style, kind, op = case["cfg"], case["style"], case["kind"], case["op"]
    schema = get_schema()
    out = {"status": "ok", "evals": 0, "problems": [], "outcomes": set()}
    P = out["problems"]
    scalars, _ = scalar_section(cfg, style)
    options = dict({"scalars": scalars}, **(case.get("options") or {}))
    files = {}
    if cfg != "type_only":
        if style == "absolute":
            files["abs_scalars_mod.py"] = SCALARS_MOD
        else:
            files["scalars_mod.py"] = SCALARS_MOD
    with genpkg.scratch() as d:
        if "scalars_mod.py" in files:
            options["files_to_include"] = [f"{d}/scalars_mod.py"]
        qtext = op[1]
        try:
            sys.modules.pop("abs_scalars_mod", None)
            if d not in sys.path:
                sys.path.insert(0, d)
            pkg, pdir, _ = genpkg.generate(d, SCHEMA, qtext, options, files=files)
            mod, mods = genpkg.import_package(d, pkg)
        except genpkg.GenError as e:
            out.update(status="gen_error", error=str(e), error_type=e.exc_type)
            return out
        except BaseException as e:  # noqa
            out.update(status="import_error", error=f"{type(e).__name__}: {e}", error_type=type(e).__name__)
            return out
        if cfg == "type_only":
            CALLS, My = [], None
            raw_of = lambda i, sc="Sc": f"2020-0{1 if sc == 'Sc' else 2}-0{i + 1}T00:00:00"
            py_of = lambda raw: datetime.datetime.fromisoformat(raw)
        else:
            sm = sys.modules["abs_scalars_mod"] if style == "absolute" else mods["scalars_mod"]
            CALLS, My = sm.CALLS, sm.MyScalar
            raw_of = lambda i, sc="Sc": "" if i == 1 else (f"raw{i}" if sc == "Sc" else f"two{i}")
            py_of = lambda raw: My(raw)
            if cfg == "parse_is_type":
                def py_of(raw, Money=sm.Money):
                    m = object.__new__(Money)
                    m.raw = raw
                    return m
        mname = "".join(("_" + c.lower() if c.isupper() and i else c.lower()) for i, c in enumerate(op[0]))
        from ariadne_codegen.utils import str_to_snake_case
        mname = str_to_snake_case(op[0])
        shorter = any("ShorterResults" in p for p in (options.get("plugins") or [])) and "pos:top_level_scalar" in op[2]
        if kind == "result":
            state = {}

            def handler(request):
                body = json.loads(request.content)
                res, doc = refexec.execute(schema, body["query"], body.get("variables") or {}, state["choose"], scalar_values={"Sc": raw_of(0), "Sc2": raw_of(0, "Sc2"), "Plain": {"p": [1]}})
                state["res"], state["doc"] = res, doc
                return httpx.Response(200, json={"data": res.data})
            c = clients.make_client(mod.Client, True, handler)

            def run(choose):
                state.clear()
                state["choose"] = choose
                del CALLS[:]
                try:
                    r = ("ok", clients.call(True, getattr(c, mname)))
                except BaseException as e:  # noqa
                    r = ("exc", e)
                return r, state.get("res"), state.get("doc"), list(CALLS)
            ex = Explorer(run, bound=2, max_runs=200)
            for choices, sizes, (r, res, doc, calls) in ex.run_all():
                if res is None or res.errors:
                    continue
                out["evals"] += 1
                ctx = {"data": res.data, "choices": list(choices)}
                if r[0] != "ok":
                    P.append(("response_rejected", f"{type(r[1]).__name__}: {str(r[1])[:300]}", ctx))
                    continue
                if any(f.startswith("serialize") for f, a in calls):
                    P.append(("serialize_called_on_result", f"{calls}", ctx))
                for scn, fn in ((("Sc", "parse"), ("Sc2", "parse2")) if cfg != "parse_is_type" else (("Sc+Sc2", "parse"),)):
                    occ = sc_occurrences_in_data(schema, doc, {}, res.data, scn) if scn != "Sc+Sc2" else \
                        sc_occurrences_in_data(schema, doc, {}, res.data, "Sc") + sc_occurrences_in_data(schema, doc, {}, res.data, "Sc2")
                    parse_calls = Counter(a for f, a in calls if f == fn)
                    if cfg in ("parse", "both", "parse_is_type"):
                        want = Counter(repr(v) for _, v in occ)
                        if parse_calls != want:
                            P.append(("parse_call_count", f"{fn} calls {dict(parse_calls)} expected {dict(want)}", ctx))
                        if "None" in parse_calls:
                            P.append(("parse_called_with_null", f"{calls}", ctx))
                    for path, raw in occ:
                        val = get_at(r[1], path) if not shorter else get_at(r[1], path[1:])
                        if val != py_of(raw):
                            P.append(("parsed_value", f"{path}: {val!r} expected {py_of(raw)!r}", ctx))
                out["outcomes"].add("result_parsed")
            # unconfigured scalar passes through unchanged is covered by `plain` in RNest
            return finish(out)
        # argument positions (one or several operations of the same package)
        from graphql import parse_type, type_from_ast
        for sub_name, vars_ in (op[4] if len(op) > 4 else [(op[0], op[2])]):
            mname = str_to_snake_case(sub_name)
            arg_position(schema, mod, mname, vars_, cfg, CALLS, py_of, raw_of, out, P, options, case.get("tracer", "none"))
    return finish(out)


def arg_position(schema, mod, mname, vars_, cfg, CALLS, py_of, raw_of, out, P, options=None, tracer="none"):
    from mc.opcheck import client_kind
    is_async = (options or {}).get("async_client", True)
    ckw = clients.tracer_kwargs(client_kind(options or {}), tracer)
    from graphql import parse_type, type_from_ast
    if True:
        menus = {}
        for vn, vt in vars_:
            t = type_from_ast(schema, parse_type(vt))
            menus[vn] = inputs.menu(t, depth=3 if "Outer" in vt else 2, custom={"Sc": [0, 1], "Sc2": [0, 1]}, breadth=3)[:16]
        required = {vn for vn, vt in vars_ if vt.endswith("!")}
        base = {vn: (menus[vn][0] if vn in required else inputs.OMIT) for vn, _ in vars_}
        plans = [dict(base)]
        for vn, _ in vars_:
            for v in menus[vn]:
                p = dict(base)
                p[vn] = v
                plans.append(p)
        if len(vars_) > 1:
            plans.append({vn: menus[vn][0] for vn, _ in vars_})
        cb = lambda name, i: py_of(raw_of(i, name)) if name in ("Sc", "Sc2") else i
        cw = lambda name, i: raw_of(i, name) if name in ("Sc", "Sc2") else i
        for plan in plans:
            out["evals"] += 1
            ctx = {"plan": plan}
            try:
                kwargs = {vn: inputs.build(v, mod, cb) for vn, v in plan.items() if v != inputs.OMIT}
            except Exception as e:  # noqa
                P.append(("cannot_build_argument", f"{type(e).__name__}: {str(e)[:300]}", ctx))
                continue
            del CALLS[:]
            captured, (st, val) = inputs.call_and_capture(mod, mod.Client, is_async, mname, kwargs, client_kwargs=ckw)
            calls = list(CALLS)
            if len(captured) != 1:
                P.append(("call_failed", f"{st}: {val!r}; calls={calls}", ctx))
                continue
            sent = captured[0]["variables"]
            ref = {vn: inputs.ref_wire(v, cw) for vn, v in plan.items() if v != inputs.OMIT}
            if sent != ref:
                P.append(("wire_value", f"sent {json.dumps(sent)} expected {json.dumps(ref)}", ctx))
            if cfg in ("serialize", "both"):
                for scn, fn in (("Sc", "serialize"), ("Sc2", "serialize2")):
                    occ = []
                    for v in plan.values():
                        if v != inputs.OMIT:
                            spec_sc_occurrences(v, occ, scn)
                    want = Counter(repr(py_of(raw_of(i, scn))) for i in occ)
                    ser = Counter(a for f, a in calls if f == fn)
                    if ser != want:
                        P.append(("serialize_call_count", f"{fn} calls {dict(ser)} expected {dict(want)}", ctx))
            if any(f.startswith("parse") for f, a in calls):
                P.append(("parse_called_on_argument", f"{calls}", ctx))
            out["outcomes"].add("argument_serialised")


def finish(out):
    out["outcomes"] = sorted(out["outcomes"])
    kept, per = [], {}
    for c_, d_, ctx in out["problems"]:
        per[c_] = per.get(c_, 0) + 1
        if per[c_] <= 4:
            kept.append((c_, d_, ctx))
    out["problems"] = kept
    return out


def plan_features(plan):
    f = set()

    def rec(s, depth):
        if s == inputs.OMIT:
            f.add("arg:omitted")
            return
        f.add(f"val:{s[0]}")
        if s[0] == "none":
            f.add("arg:none" if depth == 0 else "nested_none")
        if s[0] == "list":
            f.add("arg:list" if depth == 0 else "nested_list")
            for x in s[1]:
                rec(x, depth + 1)
        if s[0] == "input":
            for n, v in s[2]:
                rec(v, depth + 1)
    for v in (plan or {}).values():
        rec(v if isinstance(v, tuple) else tuple(v), 0)
    return f


def build_cases(tier):
    cases = []
    for cfg in CONFIGS:
        styles = IMPORT_STYLES if cfg != "type_only" else ("relative",)
        for style in styles:
            full = (style == "relative") or tier != "quick"
            if cfg in ("type_only", "parse", "both", "parse_is_type"):
                for op in (result_ops() if full else result_ops()[:3] + result_ops()[-3:]):
                    cases.append(dict(cfg=cfg, style=style, kind="result", op=op))
                    if "pos:top_level_scalar" in op[2]:
                        cases.append(dict(cfg=cfg, style=style, kind="result", op=op, options={"plugins": ["ariadne_codegen.contrib.shorter_results.ShorterResultsPlugin"]}))
            if cfg in ("type_only", "serialize", "both"):
                for op in (arg_ops() if full else arg_ops()[:3] + arg_ops()[-3:]):
                    cases.append(dict(cfg=cfg, style=style, kind="arg", op=op))
                    # the four base clients serialise variables separately (and the OpenTelemetry ones again on their traced path)
                    if full and cfg == "both":
                        for copt, tr in (({"async_client": False}, "none"), ({"async_client": False, "opentelemetry_client": True}, "stub"), ({"opentelemetry_client": True}, "stub"),
                                         ({"async_client": False, "opentelemetry_client": True}, "none")):
                            cases.append(dict(cfg=cfg, style=style, kind="arg", op=op, options=dict(copt), tracer=tr))
                    # only the inputs the operations use: every import the kept classes need must still be emitted
                    if full and ("pos:input_field" in op[3] or "nested" in "".join(op[3]) or "two_scalars" in "".join(op[3])):
                        cases.append(dict(cfg=cfg, style=style, kind="arg", op=op, options={"include_all_inputs": False}))
    return cases


def main(tier):
    rep = Report("C07", tier, "exploration")
    genpkg.warm()
    cases = build_cases(tier)
    results = pool.run_cases(evaluate, cases, timeout=300, progress=200)
    evals, distinct, outcomes = 0, 0, set()
    for case, (st, r) in zip(cases, results):
        feats = {f"cfg:{case['cfg']}", f"import:{case['style']}", f"kind:{case['kind']}"} | {f"opt:{k}={v}" for k, v in (case.get("options") or {}).items()} | ({f"tracer:{case['tracer']}"} if case.get("tracer", "none") != "none" else set()) | set(case["op"][3] if len(case["op"]) > 3 else case["op"][2])
        desc = {"scalar_config": case["cfg"], "import_style": case["style"], "query": case["op"][1], "options": case.get("options") or {}, "tracer": case.get("tracer", "none")}
        if rep.triage:
            rep.seen(feats)
        if st != "ok":
            rep.violation("harness_" + st, feats, str(r)[:500], desc)
            continue
        if r["status"] != "ok":
            rep.violation(f'{r["status"]}:{r.get("error_type")}', feats, r["error"], desc)
            continue
        evals += r["evals"]
        distinct += 1 if r["evals"] > 1 else 0
        outcomes.update(r["outcomes"])
        for clause, detail, ctx in r["problems"]:
            rep.violation(clause, feats | plan_features(ctx.get("plan")), detail, dict(desc, **{k: v for k, v in ctx.items()}))
        if len(rep.samples) < 4 and r["evals"] > 3:
            rep.sample({"config": case["cfg"], "import": case["style"], "query": case["op"][1], "evaluations": r["evals"]})
    return rep.finish({
        "evaluations": evals, "distinct_nontrivial": distinct,
        "rule": "evaluation = one response of the choice-driven executor (result positions) or one call with symbolic arguments (argument positions) with the parse/serialize call log compared "
                "to the non-null occurrences; cases = scalar config x import style x position/shape",
        "exhaustive": True, "cases": len(cases), "observed_outcomes": sorted(outcomes),
    }, assumptions=["type-only configuration uses a pydantic-native type (datetime.datetime)", "+parse alone is exercised on result positions, +serialize alone on argument positions"])


def replay(path):
    rec = json.load(open(path))
    c = rec["case"]
    genpkg.warm()
    for case in build_cases("thorough"):
        if case["cfg"] == c["scalar_config"] and case["style"] == c["import_style"] and case["op"][1] == c["query"] and (case.get("options") or {}) == (c.get("options") or {}) and case.get("tracer", "none") == c.get("tracer", "none"):
            st, r = pool.run_forked(evaluate, case)
            print(st, r if st != "ok" else {k: v for k, v in r.items() if k != "problems"})
            hits = [p for p in (r or {}).get("problems", []) if p[0] == rec["clause"]] if st == "ok" else [1]
            for h in hits[:5]:
                print("  ", h)
            return 1 if hits or (st == "ok" and r["status"] != "ok") else 0
    print("case not found")
    return 1
