"""C11 — requests are well-formed, uploads follow the multipart spec, clients agree, concurrent calls
do not affect each other.

(A) every variables tree up to a node bound x kwargs x 6 client/tracer variants: captured httpx.Request compared
    with a reference model of the wire format and across clients;
(B) every interleaving of K concurrent execute() calls on one async client (virtual loop; K=2 all schedules,
    K=3 deviation bound 2) and every 2-thread schedule with <=2 preemptions at line granularity for the sync
    clients: each call's request/response must equal its solo execution.
"""
from __future__ import annotations

import asyncio
import datetime
import enum
import io
import itertools
import json
import threading
from email.parser import BytesParser
from typing import Any, List, Optional

import httpx
from pydantic import Field

from mc import clients, vloop, vthreads
from mc.explorer import Explorer
from mc.report import Report

bm = clients.dep_module("base_model")
Upload, UNSET, BaseModel = bm.Upload, bm.UNSET, bm.BaseModel


class Color(str, enum.Enum):
    A = "A"
    B = "B"


class VModel(BaseModel):
    some_value: Optional[Any] = Field(alias="someValue", default=None)
    file: Optional[Upload] = None
    nested: Optional["VModel"] = None
    items: Optional[List[Any]] = None


VModel.model_rebuild()
DT = datetime.datetime(2020, 1, 2, 3, 4, 5)
LEAVES = [("int",), ("str",), ("none",), ("enum",), ("dt",), ("up", 1), ("up", 2)]
MODEL_FIELDS = {"someValue": "some_value", "file": "file", "nested": "nested", "items": "items"}


# ------------------------------------------------------------------ tree enumeration
def trees(budget, depth):
    """All value specs with at most `budget` nodes and container depth <= depth."""
    if budget <= 0:
        return
    for leaf in LEAVES:
        yield leaf
    if depth <= 0 or budget < 1:
        return
    yield ("list", ())
    for n in (1, 2):
        for parts in splits(budget - 1, n):
            for kids in itertools.product(*[list(trees(p, depth - 1)) for p in parts]):
                yield ("list", tuple(kids))
    for parts in splits(budget - 1, 1):
        for (kid,) in itertools.product(list(trees(parts[0], depth - 1))):
            yield ("dict", (("k", kid),))
    if budget >= 3:
        for kids in itertools.product(list(trees(1, 0)), repeat=2):
            yield ("dict", (("k", kids[0]), ("j", kids[1])))
    # generated-style model: subsets of <=2 fields
    yield ("model", ())
    for leaf in [l for l in LEAVES if l[0] != "up"]:
        yield ("model", (("someValue", leaf),))
    for u in (("up", 1), ("up", 2), ("none",)):
        yield ("model", (("file", u),))
    if budget >= 3:
        yield ("model", (("someValue", ("up", 1)),))
        yield ("model", (("someValue", ("str",)), ("file", ("up", 1))))
        yield ("model", (("items", ("list", (("up", 1), ("int",)))),))
        yield ("model", (("nested", ("model", (("file", ("up", 2)),))),))
        yield ("model", (("nested", ("model", (("someValue", ("enum",)),))), ("file", ("up", 1))))


def splits(total, n):
    """Compositions of at most `total` into n positive parts (each part >=1), maximal parts only."""
    if n == 1:
        if total >= 1:
            yield (total,)
        return
    for first in range(1, total - n + 2):
        for rest in splits(total - first, n - 1):
            yield (first,) + rest


def size(spec):
    if spec[0] in ("list",):
        return 1 + sum(size(k) for k in spec[1])
    if spec[0] in ("dict", "model"):
        return 1 + sum(size(v) for _, v in spec[1])
    return 1


def variables_specs(budget):
    """Top-level variables dicts: one or two keys, total node budget."""
    seen = set()
    singles = [t for t in trees(budget, 2) if size(t) <= budget]
    for t in singles:
        key = ("a", t)
        if key not in seen:
            seen.add(key)
            yield (("a", t),)
    small = [t for t in trees(budget - 1, 1) if size(t) <= budget - 1]
    for t1 in small:
        for t2 in small + [("unset",)]:
            if size(t1) + size(t2) <= budget:
                yield (("a", t1), ("b", t2))
    yield (("a", ("unset",)),)
    yield ()
    yield from wide_and_deep_specs()


def wide_and_deep_specs():
    """Beyond the node budget, along the two axes the base clients index or recurse on: the NUMBER of distinct uploads in one
    request (file-part keys are decimal strings: 9 -> 10 -> 11 is where lexicographic and numeric order part) and the DEPTH of
    list nesting around generated-style models (the sync/async x plain/OpenTelemetry copies recurse separately)."""
    models = [("model", ()), ("model", (("someValue", ("str",)),)), ("model", (("file", ("up", 1)),)), ("model", (("file", ("none",)),)),
              ("model", (("nested", ("model", (("someValue", ("enum",)),))),)), ("model", (("someValue", ("str",)), ("file", ("up", 2))))]
    for m in models:
        yield (("a", ("list", (("list", (m,)),))),)
        yield (("a", ("list", (("list", (("list", (m,)),)),))),)
        yield (("a", ("list", (("list", (m, ("model", (("someValue", ("int",)),)))), ("list", ())))),)
        yield (("a", ("dict", (("k", ("list", (("list", (m,)),))),))),)
        yield (("a", ("model", (("items", ("list", (("list", (m,)),))),))),)
    for n in (3, 9, 10, 11, 12, 21):
        ups = tuple(("up", i) for i in range(1, n + 1))
        yield (("a", ("list", ups)),)
        yield (("a", ("list", tuple(reversed(ups)))),)
        yield tuple((f"v{i}", u) for i, u in enumerate(ups))
        yield (("a", ("list", tuple(("model", (("file", u),)) for u in ups))), ("b", ("up", 1)))


# ------------------------------------------------------------------ instantiate / reference wire
class Ctx:
    def __init__(self):
        self.uploads = {}

    def upload(self, i):
        if i not in self.uploads:
            self.uploads[i] = Upload(filename=f"f{i}.txt", content=io.BytesIO(f"content-{i}".encode()), content_type=f"text/x{i}")
        return self.uploads[i]


def build(spec, ctx):
    k = spec[0]
    if k == "int":
        return 1
    if k == "str":
        return "s"
    if k == "none":
        return None
    if k == "enum":
        return Color.A
    if k == "dt":
        return DT
    if k == "up":
        return ctx.upload(spec[1])
    if k == "unset":
        return UNSET
    if k == "list":
        return [build(x, ctx) for x in spec[1]]
    if k == "dict":
        return {kk: build(v, ctx) for kk, v in spec[1]}
    if k == "model":
        return VModel(**{MODEL_FIELDS[f]: build(v, ctx) for f, v in spec[1]})
    raise ValueError(spec)


def wire(spec, in_dict=False, flags=None):
    """Reference JSON image; Upload positions become ('UPLOAD', i) markers (nulls in operations)."""
    k = spec[0]
    if k == "int":
        return 1
    if k == "str":
        return "s"
    if k == "none":
        return None
    if k == "enum":
        return "A"
    if k == "dt":
        return "2020-01-02T03:04:05"
    if k == "up":
        return ("UPLOAD", spec[1])
    if k == "list":
        return [wire(x, in_dict, flags) for x in spec[1]]
    if k == "dict":
        return {kk: wire(v, True, flags) for kk, v in spec[1]}
    if k == "model":
        if in_dict and flags is not None:
            flags.add("model_in_dict")
        return {f: wire(v, in_dict, flags) for f, v in spec[1]}
    raise ValueError(spec)


def strip_uploads(w, path, found):
    if isinstance(w, tuple) and w and w[0] == "UPLOAD":
        found.append((path, w[1]))
        return None
    if isinstance(w, list):
        return [strip_uploads(x, f"{path}.{i}", found) for i, x in enumerate(w)]
    if isinstance(w, dict):
        return {k: strip_uploads(v, f"{path}.{k}", found) for k, v in w.items()}
    return w


def reference(vspec):
    flags = set()
    found = []
    variables = {}
    for k, s in vspec:
        if s == ("unset",):
            continue
        variables[k] = strip_uploads(wire(s, False, flags), f"variables.{k}", found)
    return variables, found, flags


# ------------------------------------------------------------------ capture
def parse_request(request):
    ctype = request.headers.get("content-type", "")
    body = request.content
    info = {"method": request.method, "url": str(request.url), "ctype": ctype.split(";")[0].strip(),
            "headers": {k.lower(): v for k, v in request.headers.items() if k.lower().startswith("x-")},
            "timeout": json.dumps(request.extensions.get("timeout"), sort_keys=True, default=str)}
    if ctype.startswith("multipart/form-data"):
        msg = BytesParser().parsebytes(b"Content-Type: " + ctype.encode() + b"\r\n\r\n" + body)
        parts = []
        for part in msg.get_payload():
            name = part.get_param("name", header="content-disposition")
            parts.append({"name": name, "filename": part.get_filename(), "ctype": part.get_content_type() if part.get("content-type") else None,
                          "data": part.get_payload(decode=True)})
        info["parts"] = parts
    else:
        try:
            info["json"] = json.loads(body)
        except Exception:  # noqa
            info["raw"] = body.decode("latin1")
    return info


def normalise(info):
    d = dict(info)
    if "parts" in d:
        d["parts"] = [(p["name"], p["filename"], p["ctype"], p["data"]) for p in d["parts"]]
    return json.dumps(d, sort_keys=True, default=repr)


INFO = {}
VARIANTS = [("async", "none"), ("sync", "none"), ("async_ot", "none"), ("async_ot", "stub"), ("sync_ot", "none"), ("sync_ot", "stub")]
QUERY = "query Q($a: X, $b: X) { f(a: $a, b: $b) }"


def run_variant(kind, tv, vspec, kwargs, opname="Q", calls=1, status=200, body=None):
    cls = clients.bundled_class(kind)
    is_async = clients.BUNDLED[kind][2]
    captured = []

    def handler(request):
        captured.append(parse_request(request))
        if body is not None:
            return httpx.Response(status, content=body, headers={"Content-Type": "application/json"})
        return httpx.Response(status, json={"data": {"ok": True}})

    c = clients.make_client(cls, is_async, handler, **clients.tracer_kwargs(kind, tv))
    ctx = Ctx()
    variables = {k: build(s, ctx) for k, s in vspec}
    before = {k: v for k, v in c.__dict__.items()}
    outcome = None
    for _ in range(calls):  # the SAME variables object is passed again: a call must not consume / mutate the caller's structure
        try:
            if opname == "<omitted>":
                resp = clients.call(is_async, c.execute, QUERY, variables=variables, **kwargs)
            else:
                resp = clients.call(is_async, c.execute, QUERY, opname, variables, **kwargs)
            try:
                gd = ("data", c.get_data(resp))
            except BaseException as e2:  # noqa
                gd = ("raises", type(e2).__name__)
            outcome = ("ok", resp.status_code, gd)
        except BaseException as e:  # noqa
            outcome = ("exc", type(e).__name__)
            break
    after = {k: v for k, v in c.__dict__.items()}
    mutated = [k for k in after if k not in before or before[k] is not after[k]]
    return captured, outcome, mutated


def check_tree(vspec, kwargs, kname, opname="Q", calls=1, status=200, body=None):
    """Returns (problems, tags)."""
    problems = []
    ref_vars, uploads, flags = reference(vspec)
    results = {}
    want_opname = None if opname in (None, "<omitted>") else opname
    for kind, tv in VARIANTS:
        captured, outcome, mutated = run_variant(kind, tv, vspec, kwargs, opname, calls, status, body)
        results[(kind, tv)] = (captured, outcome)
        if mutated:
            INFO["client_attributes_rebound_by_execute"] = sorted(set(INFO.get("client_attributes_rebound_by_execute", [])) | set(mutated))
    base_c, base_o = results[VARIANTS[0]]
    base_n = [normalise(x) for x in base_c]
    for v in VARIANTS[1:]:
        c, o = results[v]
        if o != base_o or [normalise(x) for x in c] != base_n:
            problems.append(("clients_disagree", f"{v[0]}/{v[1]} vs async/none: outcome {o} vs {base_o}; request differs={[normalise(x) for x in c] != base_n}"))
    captured, outcome = base_c, base_o
    if outcome[0] != "ok":
        problems.append(("request_failed", f"{outcome}"))
        return problems, flags
    if len(captured) != calls:
        problems.append(("request_count", f"{len(captured)} requests for {calls} calls"))
        return problems, flags
    if calls > 1 and normalise(captured[0]) != normalise(captured[-1]):
        problems.append(("second_call_with_same_variables_differs", "re-using the caller's variables object for a second call produced a different request"))
    r = captured[-1]
    if r["method"] != "POST":
        problems.append(("method", r["method"]))
    for hk, hv in (kwargs.get("headers") or {}).items():
        if hk.lower().startswith("x-") and r["headers"].get(hk.lower()) != hv:
            problems.append(("caller_header_lost", f"{hk}: {r['headers'].get(hk.lower())!r}"))
    exact = "model_in_dict" not in flags
    if not uploads:
        want_ct = (kwargs.get("headers") or {}).get("Content-Type", "application/json")
        if r["ctype"] != want_ct:
            problems.append(("content_type", f"{r['ctype']!r} expected {want_ct!r}"))
        if "json" not in r:
            problems.append(("body_not_json", r.get("raw", "multipart")[:200] if "raw" in r else "multipart body without uploads"))
            return problems, flags
        body = r["json"]
        if set(body) != {"query", "operationName", "variables"}:
            problems.append(("body_keys", f"{sorted(body)}"))
        if body.get("query") != QUERY or body.get("operationName") != want_opname or "operationName" not in body:
            problems.append(("query_or_name", f"{body.get('query')!r} {body.get('operationName')!r}"))
        if exact and body.get("variables") != ref_vars:
            problems.append(("variables_json", f"{body.get('variables')!r} expected {ref_vars!r}"))
        return problems, flags
    # multipart case
    if "parts" not in r:
        problems.append(("upload_not_multipart", f"content-type {r['ctype']}"))
        return problems, flags
    parts = {p["name"]: p for p in r["parts"]}
    if len(parts) != len(r["parts"]):
        problems.append(("duplicate_part_names", f"{[p['name'] for p in r['parts']]}"))
    if "operations" not in parts or "map" not in parts:
        problems.append(("multipart_parts", f"{sorted(parts)}"))
        return problems, flags
    ops = json.loads(parts["operations"]["data"])
    fmap = json.loads(parts["map"]["data"])
    if set(ops) != {"query", "operationName", "variables"} or ops.get("query") != QUERY or ops.get("operationName") != want_opname:
        problems.append(("operations_part", f"{ops!r}"))
    if exact and ops.get("variables") != ref_vars:
        problems.append(("operations_variables", f"{ops.get('variables')!r} expected {ref_vars!r}"))
    file_parts = {k: p for k, p in parts.items() if k not in ("operations", "map")}
    distinct = sorted({i for _, i in uploads})
    if len(file_parts) != len(distinct):
        problems.append(("file_parts_count", f"{len(file_parts)} file parts for {len(distinct)} distinct uploads"))
    if set(fmap) != set(file_parts):
        problems.append(("map_keys", f"map {sorted(fmap)} vs file parts {sorted(file_parts)}"))
    listed = []
    for idx, paths in fmap.items():
        ids = set()
        for p in paths:
            listed.append(p)
            cur = ops
            try:
                for seg in p.split("."):
                    cur = cur[int(seg)] if isinstance(cur, list) else cur[seg]
            except Exception:  # noqa
                problems.append(("map_path_dangling", f"{p} not in operations"))
                continue
            if cur is not None:
                problems.append(("map_path_not_null", f"{p} -> {cur!r}"))
            want = [i for pp, i in uploads if pp == p]
            if not want:
                problems.append(("map_path_not_upload", f"{p} is not an Upload position of the original"))
                continue
            ids.add(want[0])
        if len(ids) > 1:
            problems.append(("map_mixes_uploads", f"part {idx} lists positions of uploads {sorted(ids)}"))
        if ids and idx in file_parts:
            i = next(iter(ids))
            fp = file_parts[idx]
            if (fp["filename"], fp["data"], fp["ctype"]) != (f"f{i}.txt", f"content-{i}".encode(), f"text/x{i}"):
                problems.append(("file_part_content", f"part {idx}: {fp['filename']!r} {fp['data']!r} {fp['ctype']!r} expected upload {i}"))
    if sorted(listed) != sorted(p for p, _ in uploads):
        problems.append(("map_paths", f"listed {sorted(listed)} expected {sorted(p for p, _ in uploads)}"))
    return problems, flags


RESPONSE_BODIES = [("json_array", b"[1]"), ("json_null", b"null"), ("json_string", b'"x"'), ("json_number", b"7"), ("truncated", b'{"data": {"ok": tru'), ("empty", b""),
                   ("errors_only", b'{"errors": [{"message": "m"}]}'), ("errors_not_list", b'{"errors": {"message": "m"}}'), ("invalid_utf8", b'{"data": "\xff"}')]
CTORS = ["http_client", "headers_only", "headers_and_http_client", "headers_and_http_client_with_own_headers", "two_clients_sharing_http_client", "no_arguments_but_url"]


class _HttpxProxy:
    """Stands in for the `httpx` module inside a bundled client module while a client is constructed WITHOUT http_client: the client it
    builds for itself gets the capturing mock transport."""

    def __init__(self, transport):
        self._t = transport

    def __getattr__(self, name):
        return getattr(httpx, name)

    def AsyncClient(self, *a, **k):
        return httpx.AsyncClient(*a, transport=self._t, **k)

    def Client(self, *a, **k):
        return httpx.Client(*a, transport=self._t, **k)


def construct(kind, tv, handler, ctor):
    import sys
    cls = clients.bundled_class(kind)
    is_async = clients.BUNDLED[kind][2]
    tr = httpx.MockTransport(handler)
    H = httpx.AsyncClient if is_async else httpx.Client
    tk = clients.tracer_kwargs(kind, tv)
    url = "http://verif.invalid/graphql"
    if ctor == "http_client":
        return cls(url=url, http_client=H(transport=tr), **tk)
    if ctor == "headers_and_http_client":
        return cls(url=url, headers={"X-C": "ctor", "X-A": "from-ctor"}, http_client=H(transport=tr), **tk)
    if ctor == "headers_and_http_client_with_own_headers":
        return cls(url=url, headers={"X-C": "ctor", "X-Own": "ctor-wins?"}, http_client=H(transport=tr, headers={"X-Own": "http-client", "X-Only-Http": "1"}), **tk)
    if ctor == "two_clients_sharing_http_client":
        shared = H(transport=tr, headers={"X-Shared": "s"})
        first = cls(url=url, headers={"X-C": "first"}, http_client=shared, **tk)
        cls(url=url, headers={"X-C": "second", "X-Second": "2"}, http_client=shared, **tk)
        return first
    mod = sys.modules[cls.__module__]
    old = mod.httpx
    mod.httpx = _HttpxProxy(tr)
    try:
        if ctor == "headers_only":
            return cls(url=url, headers={"X-C": "ctor", "X-A": "from-ctor"}, **tk)
        return cls(url=url, **tk)
    finally:
        mod.httpx = old


def check_constructors(rep):
    """Every way of constructing a client x kwargs x {JSON, multipart}: the six client / tracer variants must send identical requests."""
    n = 0
    trees = [("json", [("a", ("int",))]), ("upload", [("a", ("up", 1)), ("b", ("int",))])]
    for ctor in CTORS:
        for tname, vspec in trees:
            for kname, kw in KWARGS:
                if kname == "ctype_override" and tname == "upload":
                    continue
                obs = {}
                for kind, tv in VARIANTS:
                    is_async = clients.BUNDLED[kind][2]
                    captured = []

                    def handler(request):
                        captured.append(parse_request(request))
                        return httpx.Response(200, json={"data": {"ok": True}})
                    try:
                        c = construct(kind, tv, handler, ctor)
                        ctx = Ctx()
                        variables = {k: build(sp, ctx) for k, sp in vspec}
                        resp = clients.call(is_async, c.execute, QUERY, "Q", variables, **kw)
                        out = ("ok", resp.status_code)
                    except BaseException as e:  # noqa
                        out = ("exc", type(e).__name__, str(e)[:120])
                    obs[(kind, tv)] = ([normalise(x) for x in captured], out)
                    n += 1
                base = obs[VARIANTS[0]]
                for v in VARIANTS[1:]:
                    if obs[v] != base:
                        rep.violation("clients_disagree", {f"ctor:{ctor}", f"kwargs:{kname}", f"body:{tname}", f"client:{v[0]}"},
                                      f"constructed as {ctor}: {v[0]}/{v[1]} sent {obs[v][0]} -> {obs[v][1]} but async/none sent {base[0]} -> {base[1]}",
                                      {"constructor": ctor, "kwargs": kw, "variables": vspec, "variant": list(v)})
    return n


KWARGS = [("none", {}), ("headers", {"headers": {"X-A": "1"}}), ("ctype_override", {"headers": {"Content-Type": "application/x-custom", "X-B": "2"}}), ("timeout", {"timeout": 5})]


def tree_features(vspec):
    feats = set()

    def rec(s, in_dict, in_model):
        feats.add(f"node:{s[0]}")
        if s[0] == "up":
            if in_dict and in_model:
                feats.add("upload_in_model_in_dict")
        if s[0] == "list":
            for x in s[1]:
                rec(x, in_dict, in_model)
        elif s[0] == "dict":
            for _, v in s[1]:
                rec(v, True, in_model)
        elif s[0] == "model":
            if in_dict:
                feats.add("model_in_dict")
            for f, v in s[1]:
                rec(v, in_dict, True)
    for _, s in vspec:
        rec(s, False, False)
    ups = []

    def cnt(s):
        if s[0] == "up":
            ups.append(s[1])
        elif s[0] == "list":
            for x in s[1]:
                cnt(x)
        elif s[0] in ("dict", "model"):
            for _, v in s[1]:
                cnt(v)
    for _, s in vspec:
        cnt(s)
    if len(ups) != len(set(ups)):
        feats.add("same_upload_twice")
    return feats


# ------------------------------------------------------------------ (B) schedules
CALLS = [
    ("A", (("a", ("int",)),), {}),
    ("B", (("a", ("list", (("up", 1), ("model", (("file", ("up", 2)),))))), ("b", ("up", 1))), {}),
    ("C", (("a", ("model", (("someValue", ("str",)),))),), {"headers": {"X-C": "c"}}),
    ("D", (("a", ("list", (("up", 2), ("up", 2), ("up", 1)))),), {}),
]


def solo_request(kind, tv, call):
    name, vspec, kwargs = call
    cls = clients.bundled_class(kind)
    is_async = clients.BUNDLED[kind][2]
    cap = []

    def handler(request):
        cap.append(normalise(parse_request(request)))
        return httpx.Response(200, json={"data": {"op": name}})
    c = clients.make_client(cls, is_async, handler, **clients.tracer_kwargs(kind, tv))
    ctx = Ctx()
    clients.call(is_async, c.execute, QUERY, name, {k: build(s, ctx) for k, s in vspec}, **kwargs)
    return cap[0]


def op_of(norm):
    d = json.loads(norm)
    if "json" in d:
        return d["json"]["operationName"]
    for p in d["parts"]:
        if p[0] == "operations":
            return json.loads(eval(p[3]).decode())["operationName"]  # noqa: S307 (repr of bytes written by normalise)
    return None


def async_schedules(kind, tv, calls, bound, handler_awaits, rep, stats):
    cls = clients.bundled_class(kind)
    solo = {c[0]: solo_request(kind, tv, c) for c in calls}

    def run(choose):
        loop = vloop.VirtualLoop()
        seen = []

        async def handler(request):
            for _ in range(handler_awaits):
                await asyncio.sleep(0)
            n = normalise(parse_request(request))
            seen.append(n)
            for _ in range(handler_awaits):
                await asyncio.sleep(0)
            return httpx.Response(200, json={"data": {"op": op_of(n)}})

        c = clients.make_client(cls, True, handler, **clients.tracer_kwargs(kind, tv))

        async def one(call):
            name, vspec, kwargs = call
            ctx = Ctx()
            r = await c.execute(QUERY, name, {k: build(s, ctx) for k, s in vspec}, **kwargs)
            return c.get_data(r)
        try:
            res = loop.run_controlled([one(cl) for cl in calls], choose)
        finally:
            loop.close()
        return seen, res

    ex = Explorer(run, bound=bound, max_runs=20000)
    orders = set()
    for choices, sizes, (seen, res) in ex.run_all():
        stats["schedules"] += 1
        stats["transitions"] += len(choices)
        orders.add(tuple(op_of(s) for s in seen))
        for call, (st, val) in zip(calls, res):
            if st != "ok" or val != {"op": call[0]}:
                rep.violation("concurrent_call_result", [f"client:{kind}", "schedule:async"], f"call {call[0]} got {st} {val!r}",
                              {"client": kind, "tracer": tv, "calls": [c[0] for c in calls], "schedule": list(choices), "handler_awaits": handler_awaits})
        got = {op_of(s): s for s in seen}
        for name, want in solo.items():
            if got.get(name) != want:
                rep.violation("concurrent_request_differs", [f"client:{kind}", "schedule:async"], f"request of call {name} differs from its solo execution",
                              {"client": kind, "tracer": tv, "calls": [c[0] for c in calls], "schedule": list(choices), "handler_awaits": handler_awaits})
    stats["capped"] = stats["capped"] or ex.capped
    stats["distinct_orders"] |= orders


def thread_schedules(kind, tv, calls, bound, rep, stats, reduce=True):
    cls = clients.bundled_class(kind)
    solo = {c[0]: solo_request(kind, tv, c) for c in calls}
    files = ("dependencies/base_client.py", "dependencies/base_client_open_telemetry.py")

    def run(choose):
        seen = []
        lock = threading.Lock()

        def handler(request):
            n = normalise(parse_request(request))
            with lock:
                seen.append(n)
            return httpx.Response(200, json={"data": {"op": op_of(n)}})
        c = clients.make_client(cls, False, handler, **clients.tracer_kwargs(kind, tv))

        def body(call):
            name, vspec, kwargs = call

            def f():
                ctx = Ctx()
                r = c.execute(QUERY, name, {k: build(s, ctx) for k, s in vspec}, **kwargs)
                return c.get_data(r)
            return f
        tr = vthreads.ThreadExplorerRun([body(cl) for cl in calls], choose, files, bound, reduce=reduce)
        res = tr.run()
        return seen, res, tr.points

    ex = Explorer(run, bound=None, max_runs=60000)
    for choices, sizes, (seen, res, points) in ex.run_all():
        stats["thread_schedules"] += 1
        stats["transitions"] += points
        stats.setdefault("thread_orders", set()).add(tuple(op_of(s_) for s_ in seen))
        for call, (st, val) in zip(calls, res):
            if st != "ok" or val != {"op": call[0]}:
                rep.violation("concurrent_call_result", [f"client:{kind}", "schedule:threads"], f"call {call[0]} got {st} {val!r}",
                              {"client": kind, "tracer": tv, "calls": [c[0] for c in calls], "schedule": list(choices)})
        got = {op_of(s): s for s in seen}
        for name, want in solo.items():
            if got.get(name) != want:
                rep.violation("concurrent_request_differs", [f"client:{kind}", "schedule:threads"], f"request of call {name} differs from its solo execution",
                              {"client": kind, "tracer": tv, "calls": [c[0] for c in calls], "schedule": list(choices)})
    stats["capped"] = stats["capped"] or ex.capped


class _Collect:
    def __init__(self):
        self.new = []

    def violation(self, clause, features, detail, case):
        if len(self.new) < 50:
            self.new.append({"clause": clause, "features": sorted(features), "detail": detail, "case": case})


def thread_case(case):
    kind, tv, a, b, bound = case[:5]
    reduce = case[5] if len(case) > 5 else True
    byname = {c[0]: c for c in CALLS}
    col = _Collect()
    stats = {"schedules": 0, "thread_schedules": 0, "transitions": 0, "capped": False, "distinct_orders": set(), "free_running_calls": 0}
    thread_schedules(kind, tv, [byname[a], byname[b]], bound, col, stats, reduce=reduce)
    stats.pop("distinct_orders")
    stats["thread_orders"] = sorted(stats.get("thread_orders", set()))
    return col.new, stats


def free_running(kind, tv, rep, stats, iters=150):
    """Unscheduled threaded pass of the same bodies (a cooperative scheduler's hand-offs could hide a race)."""
    cls = clients.bundled_class(kind)
    solo = {c[0]: solo_request(kind, tv, c) for c in CALLS}
    seen, lock = [], threading.Lock()

    def handler(request):
        n = normalise(parse_request(request))
        with lock:
            seen.append(n)
        return httpx.Response(200, json={"data": {"op": op_of(n)}})
    c = clients.make_client(cls, False, handler, **clients.tracer_kwargs(kind, tv))
    before = dict(c.__dict__)
    errs = []

    def body(call):
        name, vspec, kwargs = call
        for _ in range(iters):
            ctx = Ctx()
            r = c.execute(QUERY, name, {k: build(s, ctx) for k, s in vspec}, **kwargs)
            if c.get_data(r) != {"op": name}:
                errs.append(name)
    ths = [threading.Thread(target=body, args=(cl,)) for cl in CALLS]  # A, B, C, D free-running
    for t in ths:
        t.start()
    for t in ths:
        t.join()
    stats["free_running_calls"] += iters * len(CALLS)
    bad = [s for s in seen if solo[op_of(s)] != s]
    if errs or bad:
        rep.violation("free_running_threads", [f"client:{kind}"], f"errors={errs[:3]} differing_requests={len(bad)}", {"client": kind, "tracer": tv})


def main(tier):
    rep = Report("C11", tier, "model_checking")
    budget = 4 if tier == "quick" else 5
    specs = list(variables_specs(budget))
    evaluations = 0
    distinct = set()
    tag_counts = {}
    for vspec in specs:
        feats = tree_features(vspec)
        has_upload = "node:up" in feats
        for kname, kw in KWARGS:
            if kname == "ctype_override" and has_upload:
                continue
            if kname in ("ctype_override", "timeout") and size_total(vspec) > 3:
                continue
            evaluations += len(VARIANTS)
            problems, flags = check_tree(vspec, kw, kname)
            for clause, detail in problems:
                rep.violation(clause, feats | {f"kwargs:{kname}"}, detail, {"variables": vspec, "kwargs": kw})
            if kname == "none" and size_total(vspec) <= 2:
                # outcomes (status handed back, what get_data makes of it) must agree across the clients for every status class
                for stc in (100, 204, 301, 302, 404, 500):
                    evaluations += len(VARIANTS)
                    problems, flags = check_tree(vspec, kw, kname, status=stc)
                    for clause, detail in problems:
                        if clause == "clients_disagree":
                            rep.violation(clause, feats | {f"status:{stc}"}, detail, {"variables": vspec, "kwargs": kw, "status": stc})
            if kname == "none" and size_total(vspec) <= 2:
                # ... and for response bodies declared as JSON that are not what a GraphQL server sends (what execute() hands back / raises must agree)
                for stc in (200, 500):
                    for bname, body in RESPONSE_BODIES:
                        evaluations += len(VARIANTS)
                        problems, flags = check_tree(vspec, kw, kname, status=stc, body=body)
                        for clause, detail in problems:
                            if clause == "clients_disagree":
                                rep.violation(clause, feats | {f"status:{stc}", f"response_body:{bname}"}, detail, {"variables": vspec, "kwargs": kw, "status": stc, "response_body": body.decode("latin1")})
            if kname == "none" and size_total(vspec) <= (3 if tier == "quick" else 4):
                for opn, cl in ((None, 1), ("<omitted>", 1), ("Q", 2)):
                    evaluations += len(VARIANTS) * cl
                    problems, flags = check_tree(vspec, kw, kname, opname=opn, calls=cl)
                    for clause, detail in problems:
                        rep.violation(clause, feats | {f"opname:{opn}", f"calls:{cl}"}, detail, {"variables": vspec, "kwargs": kw, "operation_name": opn, "calls": cl})
        distinct.add(json.dumps(vspec))
        for f in feats:
            tag_counts[f] = tag_counts.get(f, 0) + 1
        if rep.triage:
            rep.seen(feats)
    evaluations += check_constructors(rep)
    rep.sample({"variables_spec": specs[len(specs) // 3], "meaning": "tuple tree: ('up', i)=Upload i, ('model', fields)=generated-style model, ('dict'/'list', children)"})
    rep.sample({"variables_spec": specs[-5]})
    # (B) schedules
    stats = {"schedules": 0, "thread_schedules": 0, "transitions": 0, "capped": False, "distinct_orders": set(), "free_running_calls": 0}
    pairs = list(itertools.combinations(CALLS[:3], 2))
    byname = {c[0]: c for c in CALLS}
    tpairs = [("B", "A"), ("B", "D")] if tier == "quick" else [("B", "A"), ("B", "D"), ("A", "B"), ("D", "B"), ("B", "C"), ("A", "C")]
    for kind, tv in (("async", "none"), ("async_ot", "stub")):
        for pr in pairs:
            for aw in ((0, 1, 2) if tier != "quick" else (0, 1)):
                async_schedules(kind, tv, list(pr), None if aw < 2 else 3, aw, rep, stats)
        async_schedules(kind, tv, list(CALLS[:3]), 2, 1 if tier == "quick" else 2, rep, stats)
        async_schedules(kind, tv, [byname["B"], byname["D"]], None, 1, rep, stats)
    tcases = [(kind, tv, a, b, 2 if tier == "quick" else 3) for kind, tv in (("sync", "none"), ("sync_ot", "stub")) for a, b in tpairs]
    # soundness cross-check of the scheduling-point reduction: same pair, 1 preemption, every line a scheduling point vs reduced
    tcases += [("sync", "none", "B", "D", 1, True), ("sync", "none", "B", "D", 1, False)]
    from mc import pool
    por = {}
    for tc_, (st, r) in zip(tcases, pool.run_cases(thread_case, tcases, timeout=3000)):
        kind, tv, a, b, bd = tc_[:5]
        if len(tc_) > 5 and st == "ok":
            por[tc_[5]] = (r[1]["thread_schedules"], r[1]["thread_orders"], len(r[0]))
        if st != "ok":
            rep.violation("harness_" + st, [f"client:{kind}"], str(r)[:600], {"stage": "thread_schedules", "client": kind, "calls": [a, b]})
            continue
        sub_new, sub_stats = r
        for v in sub_new:
            rep.violation(v["clause"], v["features"], v["detail"], v["case"])
        for k_ in ("thread_schedules", "transitions"):
            stats[k_] += sub_stats[k_]
        stats["capped"] = stats["capped"] or sub_stats["capped"]
    if por.get(True) and por.get(False) and (por[True][1] != por[False][1] or por[True][2] != por[False][2]):
        rep.violation("harness_por_unsound", [], f"reduced {por[True]} vs unreduced {por[False]}", {"stage": "por_crosscheck"})
    for kind, tv in (("sync", "none"), ("sync_ot", "stub")):
        free_running(kind, tv, rep, stats)
    rep.sample({"schedule_harness": "calls A(json) B(multipart, shared upload) C(model + headers) concurrently on one client", "observed_request_orders": sorted(map(list, stats["distinct_orders"]))[:6]})
    orders = len(stats.pop("distinct_orders"))
    return rep.finish({
        "states": len(specs) + stats["schedules"] + stats["thread_schedules"],
        "transitions": max(stats["transitions"], 1),
        "traces_validated_against_impl": evaluations + stats["schedules"] + stats["thread_schedules"],
        "evaluations": evaluations + stats["schedules"] + stats["thread_schedules"],
        "distinct_nontrivial": len(distinct),
        "rule": "inputs: every variables tree with <= %d nodes over leaves {int,str,None,enum,datetime,Upload1,Upload2,UNSET} and containers {list,dict,generated-style model} x kwargs x 6 client/tracer variants; "
                "schedules: every interleaving of 2 concurrent async calls (virtual loop), 3 calls with <=2 deviations, every 2-thread schedule with <=1/2 preemptions at line granularity in the sync clients; "
                "states = trees + complete schedules, transitions = scheduling decisions taken" % budget,
        "variables_trees": len(specs),
        "async_schedules": stats["schedules"], "thread_schedules": stats["thread_schedules"], "distinct_request_orders_observed": orders,
        "free_running_thread_calls": stats["free_running_calls"],
        "capped": stats["capped"], "exhaustive": not stats["capped"],
        "tree_feature_counts": tag_counts,
        "informational": INFO,
        "por_crosscheck": {"reduced": {"schedules": por.get(True, (0,))[0], "violations": por.get(True, (0, 0, 0))[2]},
                           "unreduced": {"schedules": por.get(False, (0,))[0], "violations": por.get(False, (0, 0, 0))[2]},
                           "same_observed_request_orders": por.get(True, (0, 1))[1] == por.get(False, (0, 2))[1]},
    }, assumptions=["for trees that put a model inside a dict the exact variables JSON is not fixed by the statement (only upload rules and client agreement are checked)",
                    "httpx internals are atomic for the thread scheduler (scheduling points: lines of the bundled sync client files)",
                    "thread schedules bounded by preemptions, async K=3 by deviations; the bound completed is reported"])


def size_total(vspec):
    return sum(size(s) for _, s in vspec)


def replay(path):
    rec = json.load(open(path))
    c = rec["case"]
    if "variables" in c:
        def tup(x):
            return tuple(tup(i) for i in x) if isinstance(x, list) else x
        problems, _ = check_tree(tup(c["variables"]), c.get("kwargs") or {}, "replay")
        for p in problems:
            print(p)
        return 1 if any(p[0] == rec["clause"] for p in problems) else 0
    print("schedule replay:", c)
    rep = Report("C11", "quick", "model_checking")
    calls = [cl for cl in CALLS if cl[0] in c["calls"]]
    stats = {"schedules": 0, "thread_schedules": 0, "transitions": 0, "capped": False, "distinct_orders": set(), "free_running_calls": 0}
    if clients.BUNDLED[c["client"]][2]:
        async_schedules(c["client"], c["tracer"], calls, None, c.get("handler_awaits", 1), rep, stats)
    else:
        thread_schedules(c["client"], c["tracer"], calls, 2, rep, stats)
    print(len(rep.new), "violations")
    return 1 if rep.new else 0
