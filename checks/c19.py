"""C19 — the schema source does not change the generated client.

Enumerated: ALL set partitions of a 6-definition schema into <= 3 files, each block placed in root / sub-directory / nested
sub-directory with the three extensions (every rotation of placements), the single-file source, and the introspection
source served in-process (httpx.post as seen from ariadne_codegen.schema replaced by graphql-core executing the received
introspection query), for two operation sets; every class of introspection failure; header / TLS-flag combinations.
Oracle: result models, enums, method signatures, operation strings identical per class; input models agree field by field
on required-ness and default; failures surface as IntrospectionError; the recorded httpx.post call carries the configured
headers (after $ENV substitution) and verify flag.
"""
from __future__ import annotations

import ast
import itertools
import json
import os

from graphql import build_schema, graphql_sync, parse, print_ast

from mc import corpus, genpkg, pool
from mc.report import Report

DEFS = [
    'interface Node { id: ID! }',
    'enum Kind { A B }',
    'input Filter { name: String kind: Kind = B limit: Int = 5 tag: String! = "d" tags: [String!] = ["x"] nested: Filter }',
    'type User implements Node { id: ID! name: String kind: Kind! friend: User }',
    'type Admin implements Node { id: ID! level: Int! }',
    'type Query { users(filter: Filter, kind: Kind = A, first: Int! = 10): [User!]! node(id: ID!): Node }\ntype Mutation { rename(id: ID!, name: String!): User }',
]
SCHEMA6 = "\n".join(DEFS) + "\n"
OPSETS = {
    "ops1": "query FindUsers($f: Filter, $k: Kind = A, $n: Int! = 3) { users(filter: $f, kind: $k, first: $n) { id name kind friend { id } } }\n"
            "query GetNode($id: ID!) { node(id: $id) { id ... on User { name } ... on Admin { level } } }\n",
    "ops2": "mutation Rename($id: ID!, $name: String!) { rename(id: $id, name: $name) { ...UserBits } }\nfragment UserBits on User { id name kind }\n",
}
PLACES = [("", ".graphql"), ("sub/", ".graphqls"), ("sub/deep/", ".gql")]


def partitions(items, maxblocks):
    """All set partitions of items into at most maxblocks blocks (restricted growth strings)."""
    n = len(items)

    def rec(i, assign, used):
        if i == n:
            yield list(assign)
            return
        for b in range(min(used + 1, maxblocks)):
            assign.append(b)
            yield from rec(i + 1, assign, max(used, b + 1))
            assign.pop()
    for a in rec(0, [], 0):
        blocks = {}
        for idx, b in enumerate(a):
            blocks.setdefault(b, []).append(items[idx])
        yield [blocks[k] for k in sorted(blocks)]


def summarize(pdir, mod):
    out = {"results": {}, "enums": {}, "methods": {}, "inputs": {}, "fragments": {}}
    for fn in sorted(os.listdir(pdir)):
        if not fn.endswith(".py"):
            continue
        src = open(os.path.join(pdir, fn)).read()
        tree = ast.parse(src)
        classes = {n.name: ast.get_source_segment(src, n) for n in tree.body if isinstance(n, ast.ClassDef)}
        if fn == "enums.py":
            out["enums"] = classes
        elif fn == "fragments.py":
            out["fragments"] = classes
        elif fn == "client.py":
            for n in tree.body:
                if isinstance(n, ast.ClassDef):
                    for m in n.body:
                        if isinstance(m, (ast.FunctionDef, ast.AsyncFunctionDef)):
                            sig = ast.unparse(m.args) + " -> " + (ast.unparse(m.returns) if m.returns else "")
                            q = None
                            for st in ast.walk(m):
                                if isinstance(st, ast.Call) and getattr(st.func, "id", "") == "gql" and st.args and isinstance(st.args[0], ast.Constant):
                                    q = " ".join(st.args[0].value.split())
                            out["methods"][m.name] = [sig, q]
        elif fn not in ("input_types.py", "__init__.py", "base_model.py", "exceptions.py", "async_base_client.py"):
            out["results"].update({f"{fn}:{k}": v for k, v in classes.items()})
    import pydantic
    it = __import__(mod.__name__ + ".input_types", fromlist=["x"])
    for name, obj in vars(it).items():
        if isinstance(obj, type) and issubclass(obj, pydantic.BaseModel) and obj.__module__ == it.__name__:
            fields = {}
            for fname, fi in obj.model_fields.items():
                req = fi.is_required()
                try:
                    dv = None if req else obj.model_validate({k: ("d" if True else None) for k in []}) and None
                except Exception:  # noqa
                    dv = None
                d = None
                if not req:
                    d = fi.get_default(call_default_factory=True)
                    d = d.value if hasattr(d, "value") and not isinstance(d, (str, int)) else d
                fields[fi.alias or fname] = [req, repr(d)]
            out["inputs"][name] = fields
    return out


def FakeResp(status, payload=None, text=None, content=None):
    """A real httpx.Response (so .json()/.is_success behave exactly as with a real server)."""
    import httpx
    if content is not None:
        return httpx.Response(status, content=content)
    if text is not None:
        return httpx.Response(status, content=text.encode())
    return httpx.Response(status, json=payload)


def evaluate(case):
    import ariadne_codegen.schema as acs
    out = {"status": "ok"}
    with genpkg.scratch() as d:
        src = case["source"]
        options = dict(case.get("options") or {})
        SCHEMA_TEXT = case.get("schema_text") or SCHEMA6
        if case.get("files"):
            for fn, txt in case["files"].items():
                open(os.path.join(d, fn), "w").write(txt)
            options["files_to_include"] = [os.path.join(d, fn) for fn in case["files"]]
        recorded = {}
        if src["kind"] in ("introspection", "both"):
            schema = build_schema(SCHEMA_TEXT if src["kind"] == "introspection" else "type Query { stale: Int }")

            def fake_post(url, json=None, headers=None, verify=True, **kw):
                recorded.update(url=url, headers=dict(headers or {}), verify=verify, extra=sorted(kw))
                recorded.setdefault("calls", []).append({"headers": dict(headers or {}), "verify": verify})
                mode = src.get("answer", "ok")
                import httpx as _httpx
                _httpx.URL(url)   # what the real httpx.post does first: an unparsable URL raises httpx.InvalidURL
                if mode.startswith("transport_error_first_call:"):
                    if len(recorded["calls"]) == 1:
                        raise getattr(_httpx, mode.split(":")[1])("simulated transport failure")
                    mode = "ok"
                if mode == "ok":
                    res = graphql_sync(schema, json["query"])
                    return FakeResp(200, {"data": res.data})
                if mode.startswith("valid_body_status"):
                    res = graphql_sync(schema, json["query"])
                    return FakeResp(int(mode[17:]), {"data": res.data})
                if mode == "ok_extensions":
                    res = graphql_sync(schema, json["query"])
                    return FakeResp(200, {"data": res.data, "extensions": {"x": 1}})
                if mode == "invalid_url":
                    import httpx
                    raise httpx.InvalidURL("bad url")
                if mode.startswith("status"):
                    return FakeResp(int(mode[6:]), {"data": None})
                if mode == "non_json":
                    return FakeResp(200, text="<html>")
                if mode == "invalid_utf8_body":
                    return FakeResp(200, content=b"\x80\x81 proxy error page")
                if mode == "latin1_html_body":
                    return FakeResp(200, content="<html>Erreur: acc\xe8s refus\xe9</html>".encode("latin-1"))
                if mode == "json_array":
                    return FakeResp(200, [1, 2])
                if mode == "no_data":
                    return FakeResp(200, {"extensions": {}})
                if mode == "errors":
                    return FakeResp(200, {"data": None, "errors": [{"message": "nope"}]})
                if mode == "errors_with_data":
                    res = graphql_sync(schema, json["query"])
                    return FakeResp(200, {"data": res.data, "errors": [{"message": "partial"}]})
                if mode == "data_not_object":
                    return FakeResp(200, {"data": [1]})
                if mode == "data_null":
                    return FakeResp(200, {"data": None})
                if mode == "data_without_schema":
                    return FakeResp(200, {"data": {"other": 1}})
                if mode == "truncated_schema":
                    return FakeResp(200, {"data": {"__schema": {"queryType": {"name": "Query"}}}})
                if mode == "schema_null":
                    return FakeResp(200, {"data": {"__schema": None}})
                raise AssertionError(mode)
            acs.httpx.post = fake_post
            options["remote_schema_url"] = src.get("url", "http://verif.invalid/graphql")
            for k, v in (src.get("env") or {}).items():
                os.environ[k] = v
            schema_arg = None if src["kind"] == "introspection" else SCHEMA_TEXT
        else:
            schema_arg = src["files"] if src["kind"] == "dir" else SCHEMA_TEXT
        if case.get("strategy") == "graphqlschema":
            from ariadne_codegen.main import graphql_schema
            import contextlib
            import io
            sec = {"target_file_path": os.path.join(d, "out_schema.graphql")}
            sec.update(options)
            try:
                with contextlib.redirect_stdout(io.StringIO()):
                    graphql_schema({"tool": {"ariadne-codegen": sec}})
            except BaseException as e:  # noqa
                out.update(status="raised", exc_type=type(e).__name__, error=str(e)[:300], recorded=recorded)
                return out
            out["recorded"] = recorded
            out["schema_only"] = True
            return out
        try:
            from ariadne_codegen.main import client
            import contextlib
            import io
            pkg = "gen_c19"
            if isinstance(case["queries"], dict):
                _, qp = genpkg.write_inputs(os.path.join(d, "qroot"), "type Query { x: Int }", case["queries"])
            else:
                qp = os.path.join(d, "queries.graphql")
                open(qp, "w").write(case["queries"])
            sec = {"queries_path": qp, "target_package_name": pkg, "target_package_path": d, "include_comments": "none"}
            if schema_arg is not None:
                sp, _ = genpkg.write_inputs(d, schema_arg, None)
                sec["schema_path"] = sp
            sec.update(options)
            with contextlib.redirect_stdout(io.StringIO()):
                client({"tool": {"ariadne-codegen": sec}})
        except BaseException as e:  # noqa
            out.update(status="raised", exc_type=type(e).__name__, error=str(e)[:300], recorded=recorded)
            return out
        out["recorded"] = recorded
        try:
            mod, mods = genpkg.import_package(d, pkg)
            out["summary"] = summarize(os.path.join(d, pkg), mod)
        except BaseException as e:  # noqa
            out.update(status="import_error", exc_type=type(e).__name__, error=str(e)[:300])
    return out


def build_cases(tier):
    cases = []
    for opn, q in OPSETS.items():
        cases.append(dict(label="single_file", queries=q, opset=opn, source={"kind": "file"}, tags={"source:file"}))
        cases.append(dict(label="introspection", queries=q, opset=opn, source={"kind": "introspection"}, tags={"source:introspection"}))
        cases.append(dict(label="introspection_extensions", queries=q, opset=opn, source={"kind": "introspection", "answer": "ok_extensions"}, tags={"source:introspection"}))
    parts = list(partitions(list(range(len(DEFS))), 3))
    for pi, blocks in enumerate(parts):
        rots = range(3) if tier != "quick" else [pi % 3]
        for rot in rots:
            files = {}
            for bi, block in enumerate(blocks):
                folder, ext = PLACES[(bi + rot) % 3]
                files[f"{folder}part{bi}{ext}"] = "\n".join(DEFS[i] for i in block) + "\n"
            opn = "ops1" if (pi + rot) % 2 == 0 or tier != "quick" else "ops2"
            for on in ([opn] if tier == "quick" else list(OPSETS)):
                cases.append(dict(label="partition", queries=OPSETS[on], opset=on, source={"kind": "dir", "files": files}, tags={"source:dir", f"blocks:{len(blocks)}"},
                                  partition=[[i for i in b] for b in blocks], rotation=rot))
    # file endings: no trailing newline, and a trailing comment without newline (the concatenation must still separate files)
    for pi, blocks in enumerate(parts):
        if len(blocks) < 2 or (tier == "quick" and pi % 3):
            continue
        for ending, tag in (("", "no_trailing_newline"), ("\n# end of this part", "comment_tail_without_newline")):
            files = {}
            for bi, block in enumerate(blocks):
                folder, ext = PLACES[bi % 3]
                files[f"{folder}part{bi}{ext}"] = "\n".join(DEFS[i] for i in block) + ending
            cases.append(dict(label="partition_" + tag, queries=OPSETS["ops1"], opset="ops1", source={"kind": "dir", "files": files}, tags={"source:dir", f"blocks:{len(blocks)}", tag},
                              partition=[[i for i in b] for b in blocks], rotation=tag))
    # extra directory shapes: a non-graphql file and an empty sub-directory must be ignored
    files = {"a.graphql": "\n".join(DEFS[:3]) + "\n", "b.gql": "\n".join(DEFS[3:]) + "\n", "README.md": "not graphql {", "sub/notes.txt": "type Broken {"}
    cases.append(dict(label="dir_with_foreign_files", queries=OPSETS["ops1"], opset="ops1", source={"kind": "dir", "files": files}, tags={"source:dir", "foreign_files"}))
    # unusual file and directory names: dot-prefixed, brackets / spaces / glob characters, deep nesting, sibling file and directory of one name
    odd_places = [(".hidden/", "part", ".graphql"), ("", ".dotfile", ".gql"), ("a/.b/c/", "part", ".graphqls"), ("[x]/", "part", ".graphql"), ("sp ace/", "pa rt", ".graphql"),
                  ("st*r/", "part", ".gql"), ("q?/", "part", ".graphql"), ("l1/l2/l3/l4/l5/", "part", ".graphql"), ("types/", "types", ".graphql"), ("", "types", ".graphql"),
                  ("dir.graphql/", "part", ".graphql"), ("", "UPPER", ".graphql"), ("ünï/", "pärt", ".graphql")]
    for (folder, stem, ext) in odd_places:
        for k in (1, 3, 5):
            files = {f"{folder}{stem}{ext}": "\n".join(DEFS[:k]) + "\n", "zz_rest.graphql": "\n".join(DEFS[k:]) + "\n"}
            cases.append(dict(label="odd_names", queries=OPSETS["ops1"], opset="ops1", source={"kind": "dir", "files": files}, tags={"source:dir", "odd_names", f"place:{folder}{stem}{ext}"}))
            if k == 3:
                # the same walker serves queries_path: operations split the same way
                qfiles = {f"{folder}{stem}{ext}": OPSETS["ops1"].split("\n")[0] + "\n", "zz_rest.graphql": "\n".join(OPSETS["ops1"].split("\n")[1:]) + "\n"}
                cases.append(dict(label="odd_names_queries", queries=qfiles, opset="ops1", source={"kind": "file"}, tags={"source:file", "odd_names", "queries_dir", f"place:{folder}{stem}{ext}"}))
    # both sources configured: schema_path has priority (README), the remote endpoint serves an older schema and must not matter
    for opn, q in OPSETS.items():
        cases.append(dict(label="both_sources", queries=q, opset=opn, source={"kind": "both"}, tags={"source:both"}))
    # a configured custom scalar in input fields: nullability / defaults of the input models must not depend on the source
    sc_schema = SCHEMA6 + "scalar Stamp\ninput Win { at: Stamp ats: [Stamp!] req: Stamp! opt: Int }\nextend type Query { win(w: Win, at: Stamp): Int }\n"
    sc_q = "query W($w: Win, $at: Stamp) { win(w: $w, at: $at) }\n"
    mod_txt = "def ser(v):\n    return int(v)\n\n\ndef par(v):\n    return int(v)\n"
    for cn, sc in (("type", {"type": "int"}), ("type_serialize", {"type": "int", "serialize": ".stamp_mod.ser"}), ("type_parse", {"type": "int", "parse": ".stamp_mod.par"}),
                   ("type_both", {"type": "int", "serialize": ".stamp_mod.ser", "parse": ".stamp_mod.par"})):
        common = dict(queries=sc_q, opset=f"scalar:{cn}", schema_text=sc_schema, options={"scalars": {"Stamp": sc}}, files={"stamp_mod.py": mod_txt} if len(sc) > 1 else None)
        cases.append(dict(common, label="single_file", source={"kind": "file"}, tags={"source:file", f"scalar_cfg:{cn}"}))
        cases.append(dict(common, label="scalar_introspection", source={"kind": "introspection"}, tags={"source:introspection", f"scalar_cfg:{cn}"}))
        cases.append(dict(common, label="scalar_dir", source={"kind": "dir", "files": {"a.graphql": SCHEMA6, "sub/b.gql": sc_schema[len(SCHEMA6):]}}, tags={"source:dir", f"scalar_cfg:{cn}"}))
    # every status class with a WELL-FORMED introspection body: only 2xx may be accepted
    for status in (100, 101, 199, 300, 301, 302, 304, 307, 308, 400, 401, 404, 500, 503):
        cases.append(dict(label="introspection_failure", queries=OPSETS["ops1"], opset="ops1", source={"kind": "introspection", "answer": f"valid_body_status{status}"}, expect="IntrospectionError",
                          tags={f"failure:status{status // 100}xx_valid_body", f"status:{status}"}))
    for status in (201, 203, 206, 226, 299):
        cases.append(dict(label="introspection_2xx", queries=OPSETS["ops1"], opset="ops1", source={"kind": "introspection", "answer": f"valid_body_status{status}"}, tags={"source:introspection", f"status:{status}"}))
    # equally named files in different sub-directories (each must be read), incl. the same name at three depths
    for k in (1, 2, 4):
        files = {"users/types.graphql": "\n".join(DEFS[:k]) + "\n", "orders/types.graphql": "\n".join(DEFS[k:k + 1]) + "\n", "types.graphql": "\n".join(DEFS[k + 1:]) + "\n"}
        cases.append(dict(label="same_base_names", queries=OPSETS["ops1"], opset="ops1", source={"kind": "dir", "files": files}, tags={"source:dir", "same_base_names"}))
    cases.append(dict(label="same_base_names", queries=OPSETS["ops1"], opset="ops1", tags={"source:dir", "same_base_names"},
                      source={"kind": "dir", "files": {"a/b/schema.gql": "\n".join(DEFS[:2]) + "\n", "a/schema.gql": "\n".join(DEFS[2:4]) + "\n", "schema.gql": "\n".join(DEFS[4:]) + "\n"}}))
    # pruning options: the closure of used inputs / enums must not depend on the order in which the source lists the definitions
    prune = {"include_all_inputs": False, "include_all_enums": False}
    extra = ["enum SortOrder { ASC DESC }", "input Audit { order: SortOrder who: String }", "input Page { order: SortOrder size: Int }", "extend type Query { paged(p: Page): Int audited(a: Audit): Int }"]
    psdl = SCHEMA6 + "\n".join(extra) + "\n"
    pq = "query Paged($p: Page) { paged(p: $p) }\n"
    common = dict(queries=pq, opset="pruned", schema_text=psdl, options=prune)
    cases.append(dict(common, label="single_file", source={"kind": "file"}, tags={"source:file", "pruning"}))
    cases.append(dict(common, label="pruned_introspection", source={"kind": "introspection"}, tags={"source:introspection", "pruning"}))
    import itertools as _it
    for perm in _it.permutations(range(3)):
        names = ["a_first.graphql", "m_middle.graphql", "z_last.graphql"]
        files = {"base.graphql": SCHEMA6, "zz_ext.graphql": extra[3] + "\n"}
        for fn, idx in zip(names, perm):
            files[fn] = extra[idx] + "\n"
        cases.append(dict(common, label="pruned_dir", source={"kind": "dir", "files": files}, tags={"source:dir", "pruning", f"definition_order:{''.join(map(str, perm))}"}))
    # type system extensions (`extend input / enum / type`): a schema written with extensions IS the merged schema, whatever the source
    from graphql import print_schema as _print_schema
    ext_defs = ["extend input Filter { extOpt: Int extReq: ID! extKinds: [Kind!] }", "extend enum Kind { C }", "extend type User { nick: String! }",
                "extend type Query { byKind(k: Kind!, f: Filter): [User!] }", "extend input Filter { secondExt: String }"]
    ext_text = SCHEMA6 + "\n".join(ext_defs) + "\n"
    merged_text = _print_schema(build_schema(ext_text)) + "\n"
    eq = "query ByKind($k: Kind!, $f: Filter) { byKind(k: $k, f: $f) { id nick kind } users(filter: $f) { id } }\n"
    common = dict(queries=eq, opset="extensions")
    cases.append(dict(common, label="single_file", schema_text=merged_text, source={"kind": "file"}, tags={"source:file", "extensions:merged_by_hand"}))
    cases.append(dict(common, label="extensions_single_file", schema_text=ext_text, source={"kind": "file"}, tags={"source:file", "extensions"}))
    cases.append(dict(common, label="extensions_introspection", schema_text=ext_text, source={"kind": "introspection"}, tags={"source:introspection", "extensions"}))
    for bn, en in (("a_base.graphql", "b_ext.graphql"), ("z_base.graphql", "b_ext.graphql"), ("base.graphql", "sub/ext.gql")):
        cases.append(dict(common, label="extensions_dir", schema_text=ext_text, source={"kind": "dir", "files": {bn: SCHEMA6, en: "\n".join(ext_defs) + "\n"}}, tags={"source:dir", "extensions", f"files:{bn}+{en}"}))
    cases.append(dict(common, label="extensions_dir", schema_text=ext_text, tags={"source:dir", "extensions", "files:one_per_extension"},
                      source={"kind": "dir", "files": dict({"m_base.graphql": SCHEMA6}, **{f"{'az'[i % 2]}{i}.graphql": d + "\n" for i, d in enumerate(ext_defs)})}))
    # failures
    for mode in ("invalid_utf8_body", "latin1_html_body", "invalid_url", "status100", "status301", "status404", "status500", "non_json", "json_array", "no_data", "errors", "errors_with_data", "data_not_object", "data_null",
                 "data_without_schema", "truncated_schema", "schema_null"):
        cases.append(dict(label="introspection_failure", queries=OPSETS["ops1"], opset="ops1", source={"kind": "introspection", "answer": mode}, expect="IntrospectionError", tags={f"failure:{mode}"}))
    # URLs that httpx itself refuses to parse (the real URL parser runs inside the replaced post): the introspection error, whatever else is configured
    for ui, bad in enumerate(("http://[::1:8000/graphql/", "https://[host.example]/graphql", "http://exa mple.invalid/graphql", "http://verif.invalid:99999999/graphql", "http://[fe80::1%25eth0/graphql",
                              "http://verif.invalid:port/graphql")):
        import httpx as _hx
        try:
            _hx.URL(bad)
            continue   # (httpx parses this one: it would only fail while connecting, which is outside this harness)
        except _hx.InvalidURL:
            pass
        for strat in ("client", "graphqlschema"):
            cases.append(dict(label="introspection_failure", queries=OPSETS["ops1"], opset="ops1", source={"kind": "introspection", "url": bad}, expect="IntrospectionError", strategy=strat,
                              options={"remote_schema_headers": {"X-A": "1"}} if ui % 2 else {}, tags={"failure:unparsable_url", f"url:{bad}", f"strategy:{strat}"}))
    # a transport-level failure of the first request: whatever the tool does next (give up or try again), EVERY request it sends carries the configured headers and TLS flag
    for exc in ("ConnectTimeout", "ConnectError", "ReadTimeout", "RemoteProtocolError"):
        for verify in (False, True):
            cases.append(dict(label="transport_fault", queries=OPSETS["ops1"], opset="ops1", source={"kind": "introspection", "answer": f"transport_error_first_call:{exc}", "env": {"VERIF_TOK": "s3cret"}},
                              options={"remote_schema_headers": {"Authorization": "$VERIF_TOK", "X-P": "p"}, "remote_schema_verify_ssl": verify}, want_headers={"Authorization": "s3cret", "X-P": "p"}, want_verify=verify,
                              tags={"transport_fault", f"fault:{exc}", f"verify:{verify}"}))
    # headers / TLS flag
    ENV = {"VERIF_TOK": "s3cret", "VERIF_DOLLAR": "$ecret-9f3a$1", "VERIF_REF": "$VERIF_TOK", "VERIF_SPACES": " padded ", "VERIF-DASH.dotted-name": "dashed-secret", "verif.lower.dots": "dotted-secret",
           "9VERIF_DIGIT_FIRST": "digit-secret", "VERIF_é": "non-ascii-name-secret"}
    HVALS = {"lit": "Bearer lit", "dollar_mid": "a$b", "dollar_end": "cost$", "env": "$VERIF_TOK", "env_value_starts_with_dollar": "$VERIF_DOLLAR", "env_value_names_other_variable": "$VERIF_REF",
             "env_spaces": "$VERIF_SPACES", "empty": "", "env_name_dash_dot": "$VERIF-DASH.dotted-name", "env_name_lower_dots": "$verif.lower.dots",
             "env_name_digit_first": "$9VERIF_DIGIT_FIRST", "env_name_non_ascii": "$VERIF_é"}
    resolve = lambda v: ENV[v[1:]] if v.startswith("$") else v   # the documented rule, applied once
    header_sets = [({"Authorization": "Bearer lit"}, {}, {"Authorization": "Bearer lit"}), ({"Authorization": "$VERIF_TOK", "X-Plain": "p"}, {"VERIF_TOK": "s3cret"}, {"Authorization": "s3cret", "X-Plain": "p"}), ({}, {}, {})]
    header_sets += [({"X-H": v}, ENV, {"X-H": resolve(v)}) for v in HVALS.values()]
    header_sets.append(({f"X-{k}": v for k, v in HVALS.items()}, ENV, {f"X-{k}": resolve(v) for k, v in HVALS.items()}))
    for hi, (hv, env, want) in enumerate(header_sets):
        for verify in ((True, False, None) if hi < 3 else (None,)):
            opts = {"remote_schema_headers": hv}
            if verify is not None:
                opts["remote_schema_verify_ssl"] = verify
            for strat in ("client", "graphqlschema"):
                cases.append(dict(label="headers", queries=OPSETS["ops1"], opset="ops1", source={"kind": "introspection", "env": env}, options=dict(opts), want_headers=want, want_verify=True if verify is None else verify,
                                  strategy=strat, tags={"headers", "source:introspection", f"verify:{verify}", f"strategy:{strat}"} | ({f"header_value:{k}" for k, v in HVALS.items() if v in hv.values()} if hi >= 3 else set())))
    for mode in ("status500", "non_json", "errors", "data_without_schema", "invalid_utf8_body"):
        cases.append(dict(label="introspection_failure", queries=OPSETS["ops1"], opset="ops1", source={"kind": "introspection", "answer": mode}, expect="IntrospectionError", strategy="graphqlschema",
                          tags={f"failure:{mode}", "strategy:graphqlschema"}))
    return cases


def diff_summaries(base, other):
    probs = []
    for sect in ("results", "enums", "fragments"):
        if set(base[sect]) != set(other[sect]):
            probs.append((f"{sect}_classes_differ", f"only baseline {sorted(set(base[sect]) - set(other[sect]))} only other {sorted(set(other[sect]) - set(base[sect]))}"))
        for k in set(base[sect]) & set(other[sect]):
            if base[sect][k] != other[sect][k]:
                probs.append((f"{sect}_class_text_differs", f"{k}: {other[sect][k]!r} vs {base[sect][k]!r}"))
    if set(base["methods"]) != set(other["methods"]):
        probs.append(("methods_differ", f"{sorted(base['methods'])} vs {sorted(other['methods'])}"))
    for k in set(base["methods"]) & set(other["methods"]):
        if base["methods"][k][0] != other["methods"][k][0]:
            probs.append(("method_signature_differs", f"{k}: {other['methods'][k][0]} vs {base['methods'][k][0]}"))
        if base["methods"][k][1] != other["methods"][k][1]:
            probs.append(("operation_string_differs", f"{k}: {other['methods'][k][1]!r} vs {base['methods'][k][1]!r}"))
    if set(base["inputs"]) != set(other["inputs"]):
        probs.append(("input_classes_differ", f"{sorted(base['inputs'])} vs {sorted(other['inputs'])}"))
    for k in set(base["inputs"]) & set(other["inputs"]):
        for f in set(base["inputs"][k]) | set(other["inputs"][k]):
            a, b = base["inputs"][k].get(f), other["inputs"][k].get(f)
            if a is None or b is None:
                probs.append(("input_fields_differ", f"{k}.{f}: {b} vs {a}"))
            elif a[0] != b[0]:
                probs.append(("input_field_requiredness_differs", f"{k}.{f}: required={b[0]} vs baseline required={a[0]}"))
            elif a[1] != b[1]:
                probs.append(("input_field_default_differs", f"{k}.{f}: default {b[1]} vs baseline {a[1]}"))
    return probs


def main(tier):
    rep = Report("C19", tier, "exploration")
    genpkg.warm()
    cases = build_cases(tier)
    results = pool.run_cases(evaluate, cases, timeout=300, progress=200)
    baselines = {}
    for case, (st, r) in zip(cases, results):
        if case["label"] == "single_file" and st == "ok" and r["status"] == "ok":
            baselines[case["opset"]] = r["summary"]
    compared = 0
    distinct = set()
    for case, (st, r) in zip(cases, results):
        feats = set(case["tags"]) | {f"opset:{case['opset']}"}
        desc = {"label": case["label"], "source": {k: v for k, v in case["source"].items()}, "opset": case["opset"], "partition": case.get("partition"), "options": case.get("options"),
                "queries": case["queries"] if case["opset"] not in OPSETS else None}
        distinct.add(json.dumps(desc, sort_keys=True, default=str))
        if rep.triage:
            rep.seen(feats)
        if st != "ok":
            rep.violation("harness_" + st, feats, str(r)[:500], desc)
            continue
        if case["label"] == "transport_fault":
            for ci, call in enumerate((r.get("recorded") or {}).get("calls", [])):
                if call["headers"] != case["want_headers"]:
                    rep.violation("headers_sent", feats | {f"request:{ci + 1}"}, f"request {ci + 1} sent headers {call['headers']} expected {case['want_headers']}", desc)
                if call["verify"] != case["want_verify"]:
                    rep.violation("verify_flag_sent", feats | {f"request:{ci + 1}"}, f"request {ci + 1} sent verify={call['verify']!r}, configured {case['want_verify']!r}", desc)
            continue
        if case.get("expect"):
            if r["status"] != "raised":
                rep.violation("introspection_failure_accepted", feats, "generation succeeded", desc)
            elif r["exc_type"] != case["expect"]:
                rep.violation("introspection_failure_wrong_exception", feats, f"{r['exc_type']}: {r['error']}", desc)
            continue
        if r["status"] != "ok":
            rep.violation(f"generation_{r['status']}:{r.get('exc_type')}", feats, r.get("error", ""), desc)
            continue
        if case["label"] == "headers":
            rec = r["recorded"]
            if rec.get("headers") != case["want_headers"]:
                rep.violation("headers_sent", feats, f"sent {rec.get('headers')} expected {case['want_headers']}", desc)
            if rec.get("verify") != case["want_verify"]:
                rep.violation("verify_flag_sent", feats, f"verify={rec.get('verify')!r} expected {case['want_verify']!r}", desc)
        if r.get("schema_only"):
            continue
        base = baselines.get(case["opset"])
        if base is None:
            rep.violation("baseline_missing", feats, "single-file generation failed", desc)
            continue
        compared += 1
        for clause, detail in diff_summaries(base, r["summary"]):
            ffeat = {"field:" + detail.split(":")[0]} if clause.startswith("input_field_") else set()
            rep.violation(clause, (feats - {"source:introspection"}) | ffeat | ({"introspection+" + next(iter(ffeat))} if ffeat and "source:introspection" in feats else set()) if clause.startswith("input_field_") else feats, detail, desc)
    rep.sample({"schema_definitions": DEFS, "partitions_enumerated": sum(1 for c in cases if c["label"] == "partition")})
    rep.sample(next(({"partition": c["partition"], "files": sorted(c["source"]["files"])} for c in cases if c["label"] == "partition" and len(c["partition"]) == 3), {}))
    return rep.finish({
        "evaluations": len(cases), "distinct_nontrivial": len(distinct),
        "rule": "evaluation = one generation from one schema source, summarised per class (result models, enums, fragments, method signatures, operation strings, input field required/default) and compared with the single-file baseline; "
                "sources = all set partitions of the 6 top-level definitions into <= 3 files x placements, introspection (plain / with extensions), 15 introspection failure classes, 9 header/TLS combinations",
        "exhaustive": True, "sources_compared_with_baseline": compared, "set_partitions": 122,
    }, assumptions=["files are compared per class, not byte-wise (the statement asks for the same client, not the same definition order)", "TLS itself is not exercised, only the flag handed to httpx.post"])


def replay(path):
    rec = json.load(open(path))
    c = rec["case"]
    genpkg.warm()
    for case in build_cases("thorough"):
        if case["label"] == c["label"] and case["opset"] == c["opset"] and case.get("partition") == c.get("partition") and case["source"].get("answer") == c["source"].get("answer") and case.get("options") == c.get("options"):
            st, r = pool.run_forked(evaluate, case)
            print(st, {k: v for k, v in (r or {}).items() if k != "summary"})
            return 1
    print("case not found")
    return 1
