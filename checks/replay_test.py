"""Plain unit-test entry for violation artefacts: every file under /verif/replays is replayed without the explorer.
Run:  cd /verif && PYTHONPATH=/verif /venv/bin/python -m pytest -q checks/replay_test.py
A replay that still reproduces its violation fails the test."""
import glob
import importlib
import json
import os

import pytest

ROOT = os.path.dirname(os.path.dirname(os.path.abspath(__file__)))
FILES = sorted(glob.glob(os.path.join(ROOT, "replays", "*.json")))


@pytest.mark.parametrize("path", FILES or [None])
def test_replay(path):
    if path is None:
        pytest.skip("no replay artefacts present")
    prop = json.load(open(path))["property"]
    mod = importlib.import_module(f"checks.{prop.lower()}")
    assert mod.replay(path) == 0, f"{path} still reproduces its violation"
