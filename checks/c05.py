"""C05 — result models are as strict as the schema.

Every single-point corruption (null / key removed / other JSON kind / other __typename) of every
enumerated conformant response is validated with the generated model; a reference conformance
function (graphql-core field collection + schema types) decides whether it must be rejected.
Converse: every visited model field's annotation is compared with the image of its GraphQL type.
"""
from __future__ import annotations

import json

from checks import c01
from mc import corpus, features, genpkg, opcheck, pool
from mc.report import Report


def build_cases(tier):
    singles = {"node": 1, "u": 1, "user": 1, "named": 1, "nodes": 1, "ul": 1, "userReq": 1, "aliased_top": 1}
    ops = list(corpus.enumerate_ops(singles, rich=True, validate_ops=False)) + corpus.w_ops()
    # two selection items side by side (inline fragment next to a spread, two spreads, ...): abstract positions in the quick tier, all in thorough
    pairs = {"node": 2, "u": 2} if tier == "quick" else {"node": 2, "u": 2, "user": 2}
    ops += [o for o in corpus.enumerate_ops(pairs, rich=False, validate_ops=False) if "k2" in o.tags]
    ops += corpus.fragment_overlap_ops()
    return ops


def main(tier):
    rep = Report("C05", tier, "exploration")
    genpkg.warm()
    schema = corpus.schema_k()
    ops = build_cases(tier)
    payload = [dict(schema=corpus.SCHEMA_K, doc_text=o.doc_text, op_name=o.name, uses_var=o.uses_var, options={}, checks=["c05"],
                    bound=1 if tier == "quick" else 2, max_runs=200 if tier == "quick" else 600) for o in ops]
    # configured custom scalar (pydantic-native type): must be exactly as strict as the type, also inside fragment classes
    conf = [o for o in ops if "blob" in o.text or "FCamel" in o.text or "wkind:blb" in o.tags]
    conf += [corpus.build_op(f"Conf{i}", pos, pt, tag, items) for i, (pos, pt, tag, items) in enumerate([
        ("user", "User", "user", [corpus.Item("...FCamel", {"spread"}, {"FCamel"})]),
        ("user", "User", "user", [corpus.Item("friend { ...FCamel }", {"composite_field"}, {"FCamel"})]),
        ("node", "Node", "node", [corpus.Item("... on User { blob ...FCamel }", {"inline"}, {"FCamel"})]),
        ("user", "User", "user", [corpus.Item("blob", {"field"}), corpus.Item("friends { blob }", {"composite_field"})]),
    ])]
    nplain = len(ops)
    ops = ops + conf
    # second schema family (interfaces implementing interfaces, unions of implementers, custom roots) and its typed spread matrix
    k2 = corpus.k2_ops() + corpus.k2_matrix()
    payload += [dict(schema=corpus.SCHEMA_K, doc_text=o.doc_text, op_name=o.name, uses_var=o.uses_var, options={"scalars": {"Blob": {"type": "int"}}}, checks=["c05"],
                     configured_scalars={"Blob": "int"}, scalar_values={"Blob": 5}, bound=1, max_runs=100) for o in conf]
    ops = ops + k2
    payload += [dict(schema=corpus.SCHEMA_K2, doc_text=o.doc_text, op_name=o.name, uses_var=False, kwargs_list=corpus.k2_kwargs(o), options={}, checks=["c05"],
                     bound=1 if tier == "quick" else 2, max_runs=100 if tier == "quick" else 400) for o in k2]
    # plain leaf fields and aliases (incl. the name-variety fields: leading underscore, keywords, pydantic attribute names) with snake-casing OFF
    snake_off = [o for o in ops[:nplain] if ({"field", "alias"} & set(o.tags)) and not ({"inline", "spread", "composite_field", "wrapper"} & set(o.tags))]
    ops = ops + snake_off
    payload += [dict(schema=corpus.SCHEMA_K, doc_text=o.doc_text, op_name=o.name, uses_var=o.uses_var, options={"convert_to_snake_case": False}, checks=["c05"], bound=1, max_runs=100) for o in snake_off]
    n_before_snake_off = len(ops) - len(snake_off)
    results = pool.run_cases(opcheck.evaluate_op, payload, timeout=600, progress=500)
    stats = dict(operations=len(ops), invalid_ops=0, skipped_generation_failures=0, responses=0, corruptions=0, annotations=0)
    kinds = set()
    distinct = 0
    for i_, (o, (st, r)) in enumerate(zip(ops, results)):
        k2f = "family:K2" in o.tags
        case_desc = {"schema": "K2" if k2f else "K", "query": o.doc_text}
        feats = (set(features.op_features(corpus.schema_k2() if k2f else schema, o.doc_text)) | (set(t for t in o.tags if t != "family:K2") if k2f else set())) \
            if (st != "ok" or r.get("problems")) or rep.triage else set()
        if feats is not None and "wrapper" in o.tags:
            configured = nplain <= i_ < nplain + len(conf)
            feats = set(feats) | {t for t in o.tags if t.startswith(("wkind:", "shape:"))} | ({"scalar_cfg:type"} if configured else set())
            if "wkind:blb" in o.tags and not configured:
                feats.add("unconfigured_scalar@" + next(t for t in o.tags if t.startswith("shape:")))
        if i_ >= n_before_snake_off:
            feats = set(feats) | {"cfg:snake_off"}
            case_desc["options"] = {"convert_to_snake_case": False}
        if rep.triage:
            rep.seen(feats)
        if st != "ok":
            rep.violation("harness_" + st, feats, str(r)[:500], case_desc)
            continue
        if r["status"] == "invalid_op":
            stats["invalid_ops"] += 1
            continue
        if r["status"] != "ok":
            stats["skipped_generation_failures"] += 1   # generation/import failures are C04/C01's subject
            continue
        stats["responses"] += r["responses"]
        stats["corruptions"] += r.get("corruptions", 0)
        stats["annotations"] += r.get("annotations", 0)
        for k_ in ("must_reject", "no_demand", "no_demand_accepted"):
            stats[k_] = stats.get(k_, 0) + r.get(k_, 0)
        if r.get("corruptions", 0) > 1:
            distinct += 1
        for clause, detail, ctx in r["problems"]:
            if clause in ("request_count", "sent_document_rejected_by_reference"):
                continue
            rep.violation(clause, feats, detail, dict(case_desc, **ctx))
        if r.get("corruptions") and len(rep.samples) < 4:
            rep.sample({"query": o.text, "responses": r["responses"], "corruptions_validated": r["corruptions"], "fields_compared": r.get("annotations", 0)})
    return rep.finish({
        "evaluations": stats["corruptions"] + stats["annotations"],
        "distinct_nontrivial": distinct,
        "rule": "evaluation = one corrupted payload validated with the generated model and judged by the reference conformance function, or one "
                "(class, field) annotation compared with the image of its GraphQL type; corruptions = every position nulled, every key removed, every value "
                "replaced by a witness of each other JSON kind, every __typename replaced by each other object type and an unknown name, for every explored "
                "conformant response; distinct_nontrivial = operations with more than one corruption evaluated",
        "exhaustive": True,
        **stats,
    }, assumptions=["lax scalar coercions that pydantic documents (bool/str->int/float, int->float) are not 'wrong kind' and are not generated as witnesses",
                    "responses rejected by the model in uncorrupted form are C01's subject and are skipped here"])


def replay(path):
    rec = json.load(open(path))
    case = rec["case"]
    genpkg.warm()
    from graphql import parse
    doc = parse(case["query"])
    name = [d.name.value for d in doc.definitions if d.kind == "operation_definition"][-1]
    c = dict(schema=corpus.SCHEMA_K, doc_text=case["query"], op_name=name, uses_var="$v" in case["query"], options={}, checks=["c05"], bound=2, max_runs=300,
             keep_per_clause=50)
    if case.get("schema") == "K2":
        o = next(x for x in corpus.k2_ops() + corpus.k2_matrix() if x.name == name)
        c.update(schema=corpus.SCHEMA_K2, uses_var=False, kwargs_list=corpus.k2_kwargs(o))
    st, r = pool.run_forked(opcheck.evaluate_op, c)
    hits = [p for p in (r or {}).get("problems", []) if p[0] == rec["clause"]]
    print(st, (r or {}).get("status"), (r or {}).get("problem_counts"))
    for p in hits[:5]:
        print("  ", p[0], "::", p[1][:300])
    return 1 if st != "ok" or hits else 0
