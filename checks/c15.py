"""C15 — bundled plugins preserve client behaviour apart from their documented change.

Enumerated: six input packages x every subset of {ShorterResults, ExtractOperations, ClientForwardRefs, NoReimports, Identity}
in canonical order plus every ordered pair (quick) / every ordered subset (thorough, 326); for every hook of Plugin two
tagging plugins in both orders.  Differential oracle against the unplugged package of the same input on the same enumerated
responses (deviation bound 1): loads, identical requests, same accept/reject, equal results (ShorterResults: exactly the
single top-level field), type hints unchanged in meaning (ClientForwardRefs), NoReimports only empties __init__, identity
changes no byte, hooks applied in configuration order.
"""
from __future__ import annotations

import hashlib
import inspect
import itertools
import json
import os
import re
import typing

import httpx
from graphql import build_schema, parse

from mc import clients, corpus, genpkg, pool, refexec
from mc.explorer import Explorer
from mc.report import Report, seed

P = "ariadne_codegen.contrib."
PLUGINS = {
    "shorter": P + "shorter_results.ShorterResultsPlugin",
    "extract": P + "extract_operations.ExtractOperationsPlugin",
    "forwardrefs": P + "client_forward_refs.ClientForwardRefsPlugin",
    "noreimports": P + "no_reimports.NoReimportsPlugin",
    "identity": "mc.testplugins.IdentityPlugin",
}
SCALARS_PY = "def parse_blob(v):\n    return ('parsed', repr(v))\n\n\ndef serialize_blob(v):\n    return v[1] if isinstance(v, tuple) else v\n"

INPUTS = {
    "one_field": dict(schema=corpus.SCHEMA_K, queries="query OneField { user { id name kind friend { id } } }\nquery OneList { nodes { id } }\nquery OneScalar { userReq { id } }\n"),
    "several_fields": dict(schema=corpus.SCHEMA_K, queries="query Several { user { id } node { id } ul { __typename } }\n"),
    "union_result": dict(schema=corpus.SCHEMA_K, queries="query UnionOne { u { ... on User { id name } ... on Admin { level } } }\nquery UnionList { ul { ... on User { id } ... on Admin { perms } } }\n"),
    "fragments": dict(schema=corpus.SCHEMA_K, queries="query Frag { user { ...FUser friend { ...FUser } } }\nquery FragUnpacked { node { ...FUser ... on Admin { level } } }\nquery FragOnly { userReq { ...FUser } }\n"
                                                       "fragment FUser on User { id name }\n"),
    "root_fragments": dict(schema=corpus.SCHEMA_K, queries="query TwoFrags { ...UserPart ...NodePart }\nquery ThreeFrags { ...UserPart ...NodePart ...UlPart }\nquery OneFrag { ...UserPart }\n"
                                                            "query FragPlusOwn { ...UserPart nodes { id } }\nquery OwnOnly { user { id } }\n"
                                                            "fragment UserPart on Query { user { id name } }\nfragment NodePart on Query { node { id } }\nfragment UlPart on Query { ul { __typename } }\n"),
    "custom_scalar": dict(schema=corpus.SCHEMA_K, queries="query Blobby { user { id blob } }\n",
                          options={"scalars": {"Blob": {"type": "Any", "parse": ".blob_scalars.parse_blob", "serialize": ".blob_scalars.serialize_blob"}}, "files_to_include": ["@blob_scalars.py"]},
                          files={"blob_scalars.py": SCALARS_PY}),
    "arguments_subscription": dict(schema="enum Kind { A B }\ninput In { a: Int k: Kind nested: In }\ntype T { id: ID! k: Kind }\ntype Query { f(i: In, k: Kind, n: Int! = 3): T fs(ids: [ID!]!): [T!] }\n"
                                          "type Mutation { m(i: In!): T! }\ntype Subscription { tick(k: Kind): T! }\n",
                                   queries="query F($i: In, $k: Kind, $n: Int! = 3) { f(i: $i, k: $k, n: $n) { id k } }\nquery Fs($ids: [ID!]!) { fs(ids: $ids) { id } }\n"
                                           "mutation M($i: In!) { m(i: $i) { id } }\nsubscription Tick($k: Kind) { tick(k: $k) { id } }\n"
                                           "query Locals($query: Int!, $data: Kind, $variables: In, $response: Int) { f(n: $query, k: $data, i: $variables) { id } lim: f(n: $response) { id } }\n"
                                           "mutation LocalsM($query: In!, $Data: In!) { m(i: $query) { id } m2: m(i: $Data) { id } }\n"),
}


# ---- generated inputs: the single top-level field in every type kind x arrangements of operations in the package
KIND_SCHEMA = """
enum Color { RED GREEN }
scalar DT
scalar Blob
type T { id: ID! }
type V { v: Int }
union U = T | V
type Query { anInt: Int! aStr: String anEnum: Color! enums: [Color!] aDT: DT dts: [DT!]! aBlob: Blob aBlobReq: Blob! blobs: [Blob!]! aDTReq: DT! obj: T objs: [T!]! un: U takesDT(dt: DT, c: Color): Int }
"""
KIND_OPS = {
    "int": "query GetInt { anInt }", "str": "query GetStr { aStr }", "enum": "query GetEnum { anEnum }", "enum_list": "query GetEnums { enums }",
    "scalar_native": "query GetDT { aDT }", "scalar_native_nonnull": "query GetDTReq { aDTReq }", "scalar_parsed_nonnull": "query GetBlobReq { aBlobReq }",
    "scalar_parsed_list": "query GetBlobs { blobs }", "scalar_native_list": "query GetDTs { dts }", "scalar_parsed": "query GetBlob { aBlob }",
    "object": "query GetObj { obj { id } }", "object_list": "query GetObjs { objs { id } }", "union": "query GetUn { un { ... on T { id } ... on V { v } } }",
    "aliased_enum": "query GetAliased { colour: anEnum }",
}
KIND_OPTIONS = {"scalars": {"DT": {"type": "datetime.datetime"}, "Blob": {"type": "Any", "parse": ".blob_scalars.parse_blob", "serialize": ".blob_scalars.serialize_blob"}},
                "files_to_include": ["@blob_scalars.py"]}
KIND_PLUGIN_SETS = [(), ("shorter",), ("shorter", "forwardrefs"), ("forwardrefs", "shorter"), ("shorter", "extract"), ("forwardrefs",), ("extract",), ("shorter", "noreimports")]


def kind_inputs():
    out = {}
    other = "query Other { obj { id } }"
    arg = "query WithArg($dt: DT, $c: Color) { takesDT(dt: $dt, c: $c) }"
    for k, q in KIND_OPS.items():
        arrangements = {"alone": [q], "first": [q, other], "last": [other, q], "with_argument_use": [q, arg], "after_argument_use": [arg, q]}
        sel = q[q.index("{") + 1: q.rindex("}")].strip()
        # a root-level __typename next to the single field: two response keys, so nothing may be unwrapped
        arrangements["root_typename_before"] = [q[:q.index("{") + 1] + " __typename " + q[q.index("{") + 1:]]
        arrangements["root_typename_after"] = [q[:q.rindex("}")] + " __typename }"]
        arrangements["root_typename_aliased"] = [q[:q.rindex("}")] + " kindOfRoot: __typename }"]
        arrangements["via_root_fragment"] = ["query ViaFrag { ...Part }", f"fragment Part on Query {{ {sel} }}"]
        arrangements["via_root_fragment_with_typename"] = ["query ViaFrag { ...Part }", f"fragment Part on Query {{ __typename {sel} }}"]
        arrangements["root_typename_and_root_fragment"] = ["query ViaFrag { __typename ...Part }", f"fragment Part on Query {{ {sel} }}"]
        arrangements["via_root_fragment_then_other"] = ["query ViaFrag { ...Part }", other, f"fragment Part on Query {{ {sel} }}"]
        for an, qs in arrangements.items():
            out[f"kind:{k}:{an}"] = dict(schema=KIND_SCHEMA, queries="\n".join(qs) + "\n", options=KIND_OPTIONS, files={"blob_scalars.py": SCALARS_PY})
    allq = list(KIND_OPS.values())
    # (no custom scalar here: custom operations + dotted scalar type is the C04 finding custom_operations+custom_scalar)
    out["kind:custom_operations"] = dict(schema="enum Color { RED GREEN }\ntype T { id: ID! }\ntype Query { anEnum: Color! obj: T withArg(c: Color): Int }\n",
                                         queries=KIND_OPS["enum"] + "\n" + other + "\nquery WithArg($c: Color) { withArg(c: $c) }\n", options={"enable_custom_operations": True})
    # non-default module names: what the plugins import from must follow the configuration
    for k in ("object", "enum", "scalar_parsed"):
        q = KIND_OPS[k]
        sel = q[q.index("{") + 1: q.rindex("}")].strip()
        out[f"kind:{k}:via_root_fragment+module_names"] = dict(schema=KIND_SCHEMA, queries=f"query ViaFrag {{ ...Part }}\n{other}\nfragment Part on Query {{ {sel} }}\n",
                                                               options=dict(KIND_OPTIONS, fragments_module_name="my_frags", enums_module_name="my_enums", input_types_module_name="my_inputs"),
                                                               files={"blob_scalars.py": SCALARS_PY})
    out["kind:all:forward"] = dict(schema=KIND_SCHEMA, queries="\n".join(allq) + "\n", options=KIND_OPTIONS, files={"blob_scalars.py": SCALARS_PY})
    out["kind:all:reversed"] = dict(schema=KIND_SCHEMA, queries="\n".join(reversed(allq)) + "\n", options=KIND_OPTIONS, files={"blob_scalars.py": SCALARS_PY})
    return out


INPUTS.update(kind_inputs())
INPUTS["subscriptions"] = dict(
    schema="type T { id: ID! n: Int }\ntype Query { a: Int }\ntype Subscription { count(data: Int, query: String): Int! item(data: Int): T! items: [T!] }\n",
    queries="subscription Count($data: Int, $query: String) { count(data: $data, query: $query) }\nsubscription Item($data: Int) { item(data: $data) { id n } }\n"
            "subscription Plain($x: Int) { count(data: $x) }\nsubscription Items { items { id } }\nquery GetA { a }\n")
# uploads: the shared import nodes of the client module and the input types module (Upload as a variable and inside an input)
INPUTS["uploads"] = dict(
    schema="scalar Upload\ninput FileIn { f: Upload name: String more: [Upload!] }\ntype T { id: ID! }\ntype Query { t: T }\n"
           "type Mutation { up(file: Upload!, meta: FileIn): T uploads(files: [Upload!]!): T plain(meta: FileIn): T }\n",
    queries="mutation Up($file: Upload!, $meta: FileIn) { up(file: $file, meta: $meta) { id } }\nmutation Ups($files: [Upload!]!) { uploads(files: $files) { id } }\n"
            "mutation Plain($meta: FileIn) { plain(meta: $meta) { id } }\nquery GetT { t { id } }\n")


def sha(b):
    return hashlib.sha256(b).hexdigest()


def norm(v):
    import pydantic
    if isinstance(v, pydantic.BaseModel):
        return {"__model__": json.loads(v.model_dump_json(by_alias=True))}
    if isinstance(v, list):
        return [norm(x) for x in v]
    if isinstance(v, tuple):
        return [norm(x) for x in v]
    import enum as _enum
    if isinstance(v, _enum.Enum):
        return v.value
    if hasattr(v, "value") and not isinstance(v, (str, int, float)):
        return v.value
    import datetime
    if isinstance(v, datetime.datetime):
        return v.isoformat()
    return v


def hint_str(t, pkg):
    return re.sub(r"\b" + re.escape(pkg) + r"\.", "PKG.", repr(t)).replace("ForwardRef(", "(")


def kwargs_for(op, mod):
    kw = {}
    for v in op.variable_definitions or ():
        t = v.type
        required = t.kind == "non_null_type" and v.default_value is None
        while t.kind != "named_type":
            wrapper = t.kind
            t = t.type
        name = t.name.value
        if not required:
            continue
        vn = v.variable.name.value
        islist = "[" in __import__("graphql").print_ast(v.type)
        val = {"ID": "id1", "Int": 2, "String": "s"}.get(name)
        if name == "In":
            val = mod.In(a=1)  # mod = input_types module
        kw[vn] = [val] if islist else val
    return kw


def evaluate(case):
    from mc.opcheck import find_method
    inp = INPUTS[case["input"]]
    plugins = case["plugins"]
    out = {"status": "ok"}
    schema = build_schema(inp["schema"])
    import mc.testplugins as tp
    del tp.LOG[:]
    with genpkg.scratch() as d:
        options = json.loads(json.dumps(inp.get("options") or {}))
        if "files_to_include" in options:
            options["files_to_include"] = [os.path.join(d, p[1:]) for p in options["files_to_include"]]
        if plugins:
            options["plugins"] = plugins
        pkg = "gen_c15"
        try:
            _, pdir, _ = genpkg.generate(d, inp["schema"], inp["queries"], options, files=inp.get("files"), pkg=pkg)
        except genpkg.GenError as e:
            out.update(status="gen_error", error=str(e)[:400], error_type=e.exc_type)
            return out
        out["hook_log"] = list(tp.LOG)
        out["files"] = {f: open(os.path.join(pdir, f)).read() for f in sorted(os.listdir(pdir)) if f.endswith(".py")}
        try:
            mod, mods = genpkg.import_package(d, pkg)
        except BaseException as e:  # noqa
            out.update(status="import_error", error=f"{type(e).__name__}: {str(e)[:300]}", error_type=type(e).__name__)
            return out
        doc = parse(inp["queries"])
        ops = {}
        hints = {}
        cm = mods["client"]
        Client = cm.Client
        for op in [x for x in doc.definitions if x.kind == "operation_definition"]:
            name = op.name.value
            mname = find_method(Client, name)
            try:
                ns = dict(vars(cm))
                for mm in mods.values():
                    ns.update({k: v for k, v in vars(mm).items() if isinstance(v, type)})
                h = typing.get_type_hints(getattr(Client, mname), globalns=ns)
                hints[mname] = {k: hint_str(v, pkg) for k, v in h.items()}
            except Exception as e:  # noqa
                hints[mname] = {"__error__": f"{type(e).__name__}: {str(e)[:200]}"}
            if op.operation.value == "subscription":
                # one scripted websocket exchange: ack, one next frame carrying the reference executor's default answer, complete
                from mc import inputs as _inputs
                try:
                    res, _ = refexec.execute(schema, inp["queries"], {}, lambda n, l=None: 0, operation_name=name, scalar_values={"Blob": {"b": 1}, "DT": "2020-01-02T03:04:05"})
                    kw = kwargs_for(op, mods[options.get("input_types_module_name", "input_types")]) if options.get("input_types_module_name", "input_types") in mods else {}
                    subs, (st_, val) = _inputs.call_and_capture_ws(mod, mods, Client, mname, kw, data=res.data)
                    ops[name] = [{"outcome": "ok" if st_ == "ok" else "exc:" + type(val).__name__, "value": norm(val) if st_ == "ok" else None,
                                  "request": {"query": " ".join((subs[0].get("query") or "").split()) if subs else None, "operationName": subs[0].get("operationName") if subs else None,
                                              "variables": subs[0].get("variables") if subs else None}, "data": res.data}]
                except BaseException as e:  # noqa
                    ops[name] = [{"outcome": "exc:" + type(e).__name__, "request": None, "data": None}]
                continue
            runs = []
            state = {}

            def handler(request):
                body = json.loads(request.content)
                state["body"] = body
                res, _ = refexec.execute(schema, body["query"], body.get("variables") or {}, state["choose"], operation_name=body.get("operationName"),
                                         scalar_values={"Blob": {"b": 1}, "DT": "2020-01-02T03:04:05"})
                state["res"] = res
                return httpx.Response(200, json={"data": res.data} if not res.errors else {"data": res.data, "errors": [{"message": e.message} for e in res.errors]})
            c = clients.make_client(Client, True, handler)
            try:
                kw = kwargs_for(op, mods[options.get("input_types_module_name", "input_types")])
            except Exception as e:  # noqa
                ops[name] = [{"outcome": f"harness_kwargs_error:{e}", "request": None}]
                continue

            def run(choose):
                state.clear()
                state["choose"] = choose
                try:
                    r = clients.call(True, getattr(c, mname), **kw)
                    return {"outcome": "ok", "value": norm(r)}
                except BaseException as e:  # noqa
                    return {"outcome": "exc:" + type(e).__name__}
            ex = Explorer(run, bound=1, max_runs=40)
            for choices, sizes, obs in ex.run_all():
                body = state.get("body") or {}
                q = body.get("query")
                obs["request"] = {"query": " ".join(q.split()) if q else None, "operationName": body.get("operationName"), "variables": body.get("variables")}
                obs["data"] = state["res"].data if state.get("res") is not None and not state["res"].errors else "<executor error>"
                runs.append(obs)
            ops[name] = runs
        out["ops"] = ops
        out["hints"] = hints
        from graphql.execution.collect_fields import collect_fields
        frs = {x.name.value: x for x in doc.definitions if x.kind == "fragment_definition"}
        out["top_fields"] = {x.name.value: list(collect_fields(schema, frs, {}, schema.get_root_type(x.operation), x.selection_set)) for x in doc.definitions if x.kind == "operation_definition"}
    return out


def plugin_sets(tier):
    names = list(PLUGINS)
    sets = []
    for r in range(0, len(names) + 1):
        for combo in itertools.combinations(names, r):
            sets.append(tuple(combo))
    for a, b in itertools.permutations(names, 2):
        if (a, b) not in sets:
            sets.append((a, b))
    if tier != "quick":
        for r in range(3, len(names) + 1):
            for perm in itertools.permutations(names, r):
                if perm not in sets:
                    sets.append(perm)
    return sets


def compare(base, r, plugins, rep, feats, desc):
    names = set(plugins)
    # files
    if names and names <= {"identity"}:
        if r["files"] != base["files"]:
            diff = sorted(f for f in set(r["files"]) | set(base["files"]) if r["files"].get(f) != base["files"].get(f))
            rep.violation("identity_plugin_changes_bytes", feats, f"files differ: {diff}", desc)
    if names and names <= {"identity", "noreimports"} and "noreimports" in names:
        init = r["files"].get("__init__.py", "")
        try:
            import ast
            if ast.parse(init).body:
                rep.violation("noreimports_init_not_empty", feats, init[:200], desc)
        except SyntaxError as e:
            rep.violation("noreimports_init_not_empty", feats, str(e), desc)
        diff = sorted(f for f in set(r["files"]) | set(base["files"]) if f != "__init__.py" and r["files"].get(f) != base["files"].get(f))
        if diff:
            rep.violation("noreimports_changes_other_files", feats, f"{diff}", desc)
    if "extract" in names and "operations.py" not in r["files"]:
        rep.violation("extract_no_operations_module", feats, f"{sorted(r['files'])}", desc)
    if "extract" in names and "from .operations import" not in r["files"].get("client.py", ""):
        rep.violation("extract_client_does_not_import_operations", feats, r["files"].get("client.py", "")[:200], desc)
    # behaviour
    for opn, bruns in base["ops"].items():
        pruns = r["ops"].get(opn)
        if pruns is None:
            rep.violation("operation_missing", feats, opn, desc)
            continue
        if len(pruns) != len(bruns):
            rep.violation("response_space_differs", feats, f"{opn}: {len(pruns)} vs {len(bruns)} explored responses (the sent query differs)", desc)
            continue
        single = len(base["top_fields"][opn]) == 1
        for b, p in zip(bruns, pruns):
            if b.get("request") != p.get("request"):
                rep.violation("request_differs", feats, f"{opn}: plugged {json.dumps(p.get('request'))[:300]} unplugged {json.dumps(b.get('request'))[:300]}", desc)
                break
            if b["outcome"] != p["outcome"]:
                rep.violation("acceptance_differs", feats, f"{opn}: data {json.dumps(b.get('data'))[:200]} unplugged {b['outcome']} plugged {p['outcome']}", desc)
                break
            if b["outcome"] != "ok":
                continue
            want = b["value"]
            if "shorter" in names and single:
                key = base["top_fields"][opn][0]
                if isinstance(b["value"], list) and isinstance(p["value"], list) and b.get("data") is not None and "request" in b and opn in SUBSCRIPTION_OPS:
                    # subscription: one value per next frame
                    want = [strip_model(x).get(key, "<missing>") if isinstance(strip_model(x), dict) else "<n/a>" for x in b["value"]]
                else:
                    want = strip_model(b["value"]).get(key, "<missing>") if isinstance(strip_model(b["value"]), dict) else "<n/a>"
                got = strip_models(p["value"])
                if got != strip_models(want):
                    rep.violation("shorter_results_value", feats, f"{opn}: plugged returns {json.dumps(got)[:200]}, the single top-level field of the unplugged result is {json.dumps(strip_models(want))[:200]}", desc)
                    break
            elif p["value"] != want:
                rep.violation("result_differs", feats, f"{opn}: plugged {json.dumps(p['value'])[:200]} unplugged {json.dumps(want)[:200]}", desc)
                break
    # type hints
    if "forwardrefs" in names and not ("shorter" in names):
        for m, h in base["hints"].items():
            if r["hints"].get(m) != h:
                rep.violation("type_hints_differ", feats, f"{m}: plugged {r['hints'].get(m)} unplugged {h}", desc)
                break


SUBSCRIPTION_OPS = {"Tick", "Count", "Item", "Plain", "Items"}


def strip_model(v):
    return v["__model__"] if isinstance(v, dict) and "__model__" in v else v


def strip_models(v):
    v = strip_model(v)
    if isinstance(v, dict):
        return {k: strip_models(x) for k, x in v.items()}
    if isinstance(v, list):
        return [strip_models(x) for x in v]
    return v


def hook_order_cases():
    """(plugin entries, expected tag order): class-form entries, module-form entries (a module exposing one plugin) and both mixed, in both orders."""
    A, B, MA, MB = "mc.testplugins.TagAPlugin", "mc.testplugins.TagBPlugin", "mc.tagmod_a", "mc.tagmod_b"
    return [((A, B), ["A", "B"]), ((B, A), ["B", "A"]), ((MA, B), ["A", "B"]), ((B, MA), ["B", "A"]), ((A, MB), ["A", "B"]), ((MB, A), ["B", "A"]),
            ((MA, MB), ["A", "B"]), ((MB, MA), ["B", "A"])]


def main(tier):
    rep = Report("C15", tier, "exploration")
    genpkg.warm()
    import mc.testplugins  # noqa
    psets = plugin_sets(tier)
    cases = []
    for iname in INPUTS:
        for ps in (KIND_PLUGIN_SETS if iname.startswith("kind:") else psets):
            cases.append(dict(input=iname, plugins=[PLUGINS[p] for p in ps], pnames=ps))
        for order, want in ([] if iname.startswith("kind:") else hook_order_cases()):
            cases.append(dict(input=iname, plugins=list(order), pnames=tuple(("tagmodule:" if "tagmod" in p else "tag:") + w for p, w in zip(order, want)), hook_order=True, want=want))
    results = pool.run_cases(evaluate, cases, timeout=600, progress=200)
    base = {}
    for case, (st, r) in zip(cases, results):
        if not case["plugins"] and st == "ok" and r["status"] == "ok":
            base[case["input"]] = r
    compared = 0
    hooks_seen = set()
    from mc.testplugins import _hooks
    all_hooks = set(_hooks())
    for case, (st, r) in zip(cases, results):
        feats = {f"input:{case['input']}"} | {f"plugin:{p}" for p in case["pnames"]} | {f"nplugins:{len(case['pnames'])}"}
        feats |= {f"order:{a}>{b}" for i, a in enumerate(case["pnames"]) for b in case["pnames"][i + 1:]}
        desc = {"input": case["input"], "plugins": list(case["pnames"]), "queries": INPUTS[case["input"]]["queries"]}
        if rep.triage:
            rep.seen(feats)
        if st != "ok":
            rep.violation("harness_" + st, feats, str(r)[:500], desc)
            continue
        if r["status"] != "ok":
            rep.violation(f"plugged_package_{r['status']}:{r.get('error_type')}", feats, r["error"], desc)
            continue
        if case.get("hook_order"):
            log = r["hook_log"]
            want = case["want"]
            by_hook = {}
            for hook, tag in log:
                by_hook.setdefault(hook, []).append(tag)
            for hook, tags in by_hook.items():
                hooks_seen.add(hook)
                if tags != want * (len(tags) // 2) or len(tags) % 2:
                    rep.violation("hook_order", feats | {f"hook:{hook}"}, f"{hook}: applied {tags[:8]} configured order {want}", desc)
            continue
        b = base.get(case["input"])
        if b is None:
            rep.violation("baseline_missing", feats, "unplugged generation failed", desc)
            continue
        if not case["plugins"]:
            continue
        compared += 1
        compare(b, r, case["pnames"], rep, feats, desc)
    rep.sample({"input": "fragments", "plugins": ["shorter", "extract"], "queries": INPUTS["fragments"]["queries"]})
    rep.sample({"hook_order_pair": ["TagA", "TagB"], "hooks_exercised": sorted(hooks_seen)})
    return rep.finish({
        "evaluations": len(cases), "distinct_nontrivial": len({(c["input"], tuple(c["pnames"])) for c in cases}),
        "rule": "evaluation = one package generated with an (ordered) plugin configuration, imported, every non-subscription method driven on all reference responses with <= 1 deviation and compared with the unplugged package "
                "of the same input; plus hook-order pairs of tagging plugins for every hook of Plugin",
        "exhaustive": True, "plugin_configurations": len(psets), "inputs": len(INPUTS), "compared_with_unplugged": compared,
        "hooks_exercised_by_order_pairs": sorted(hooks_seen), "hooks_never_invoked_by_these_inputs": sorted(all_hooks - hooks_seen),
    }, assumptions=["ClientForwardRefs hints are compared as strings with the package name normalised", "subscription methods are import-checked and hint-checked; their frame behaviour is C13's subject"])


def replay(path):
    rec = json.load(open(path))
    c = rec["case"]
    genpkg.warm()
    import mc.testplugins  # noqa
    plugs = [PLUGINS[p] for p in c["plugins"] if p in PLUGINS]
    st0, b = pool.run_forked(evaluate, dict(input=c["input"], plugins=[], pnames=()))
    st, r = pool.run_forked(evaluate, dict(input=c["input"], plugins=plugs, pnames=tuple(c["plugins"])))
    rep = Report("C15", "quick", "exploration")
    if st != "ok" or r["status"] != "ok":
        print(st, {k: v for k, v in (r or {}).items() if k in ("status", "error")})
        return 1
    compare(b, r, tuple(c["plugins"]), rep, set(), c)
    for v in rep.new[:5]:
        print(v["clause"], v["detail"][:300])
    return 1 if rep.new else 0
