"""C03 — method arguments arrive at the server as the declared variables.

Enumerated: variable definitions over schema I (9 named types x 14 wrapper shapes, with/without default), reserved and
clashing variable names, multi-variable operations x every value of the type-derived menu (+ explicit None, omitted)
x {sync, async} x {snake on/off} on a sub-corpus.  Oracle: graphql-core variable coercion accepts the sent JSON, a
recording resolver receives what the harness's own reference serialisation delivers, omitted => key absent,
None => null, missing required => TypeError at call time.
"""
from __future__ import annotations

import inspect
import json

from graphql import build_schema, parse

from mc import clients, corpus, genpkg, inputs, pool
from mc.report import Report

SHP_TYPES = ["Int", "Nested", "Kind"]   # input FIELDS of every wrapper shape (one input type per shape)
SHP_SDL = ""
TYPES = ["String", "Int", "Float", "Boolean", "ID", "Kind", "In", "Rec", "Blob"]
DEFAULTS = {"String": '"d"', "Int": "3", "Float": "0.5", "Boolean": "true", "ID": '"x"', "Kind": "B", "In": '{req: "r"}', "Rec": '{id: "1"}', "Blob": "1"}


def schema_i():
    fields = []
    for t in TYPES:
        for i, shape in enumerate(corpus.SHAPES):
            fields.append(f"  f_{t}_{i}(x: {shape.replace('T', t)}): String")
    shp = []
    for t in SHP_TYPES:
        for i, shape in enumerate(corpus.SHAPES):
            shp.append(f"input Shp{t}{i} {{ v: {shape.replace('T', t)} tail: Int }}")
            fields.append(f"  shp_{t}_{i}(x: Shp{t}{i}): String")
    global SHP_SDL
    SHP_SDL = "\n".join(shp) + "\n"
    return """
enum Kind { A B in }
scalar Blob
scalar Stamp
scalar Count
input Win { at: Stamp ats: [Stamp!] grid: [[Stamp]] label: String }
input Nested { v: Int tags: [String!] }
input In { a: Int req: String! kind: Kind nested: Nested nums: [Int!] camelCase: Int class: Int copy: Int dflt: Int = 5 }
input Rec { id: ID! next: Rec children: [Rec!] }
type Query {
%s
  multi(a: Int, b: String, c: Kind, d: [Int]): String
  stamp(x: Stamp): String
  count(n: Count, m: Count): String
  win(x: Win, ws: [Win!]): String
}
type Mutation { mmulti(a: Int!, b: String): String mstamp(x: Stamp): String }
type Subscription { smulti(a: Int, b: String, c: Kind, d: [Int]): String  sin(x: In, r: Rec): String  swin(x: Win, at: Stamp): String }
""" % "\n".join(fields) + SHP_SDL


SCHEMA_I = schema_i()
_schema = None


def get_schema():
    global _schema
    if _schema is None:
        _schema = build_schema(SCHEMA_I)

        def parse_stamp(v):
            if isinstance(v, bool) or not isinstance(v, int):
                raise TypeError(f"Stamp expects integer epoch seconds, got {v!r}")
            return v
        _schema.type_map["Stamp"].parse_value = parse_stamp
    return _schema


NAME_CATALOGUE = ["class", "from", "import", "match", "type", "fooBar", "FooBar", "foo_bar", "HTTPCode", "a1", "_under", "under_", "query", "variables",
                  "response", "data", "_query", "_variables", "gql", "self", "kwargs", "Query", "QUERY", "Data", "Variables", "Response", "Gql", "copy", "json", "dict", "id", "x_", "List", "Optional", "Any", "Dict", "UNSET", "Kind", "In"]


def build_cases(tier):
    cases = []
    schema = get_schema()
    for t in TYPES:
        for i, shape in enumerate(corpus.SHAPES):
            vt = shape.replace("T", t)
            for dflt in (False, True):
                if dflt and i not in (0, 1, 2):
                    continue
                d = DEFAULTS[t] if i < 2 else "[]"
                q = f"query V($x: {vt}{' = ' + d if dflt else ''}) {{ f_{t}_{i}(x: $x) }}\n"
                cfgs = [{}]
                if i in (0, 5, 13) or t in ("In", "Rec") or tier != "quick":
                    cfgs += [{"async_client": False}, {"convert_to_snake_case": False}]
                for cfg in cfgs:
                    cases.append(dict(kind="typed", query=q, op="V", vars=[("x", vt, dflt)], options=cfg,
                                      tags={f"type:{t}", f"shape:{shape}", "default" if dflt else "nodefault"}))
    # input fields of every wrapper shape: what the model lets through must reach the resolver (null items where the item type is nullable)
    for t in SHP_TYPES:
        for i, shape in enumerate(corpus.SHAPES):
            for cfg in ([{}] if tier == "quick" and not (i in (3, 9) and t == "Int") else [{}, {"async_client": False}, {"convert_to_snake_case": False}]):
                cases.append(dict(kind="typed", query=f"query S($x: Shp{t}{i}!) {{ shp_{t}_{i}(x: $x) }}\n", op="S", vars=[("x", f"Shp{t}{i}!", False)], options=cfg, menu_cap=40,
                                  tags={f"field_type:{t}", f"field_shape:{shape}", "input_field_shapes"}))
    for n in NAME_CATALOGUE:
        for cfg in ({}, {"convert_to_snake_case": False}):
            q = f"query N(${n}: Int, $other: String) {{ multi(a: ${n}, b: $other) }}\n"
            cases.append(dict(kind="name", query=q, op="N", vars=[(n, "Int", False), ("other", "String", False)], options=cfg, tags={f"varname:{n}", "names"}))
    for a, b in (("query", "_query"), ("variables", "_variables"), ("data", "response"), ("fooBar", "foo_bar"), ("query", "variables")):
        q = f"query N(${a}: Int, ${b}: String) {{ multi(a: ${a}, b: ${b}) }}\n"
        cases.append(dict(kind="name", query=q, op="N", vars=[(a, "Int", False), (b, "String", False)], options={}, tags={f"varname:{a}", f"varname:{b}", "name_pair"}))
    for q2, vs in (("query M2($tag: String, $owner: Int!, $limit: [Int], $kind: Kind!) { multi(b: $tag, a: $owner, d: $limit, c: $kind) }\n",
                    [("tag", "String", False), ("owner", "Int!", False), ("limit", "[Int]", False), ("kind", "Kind!", False)]),
                   ("mutation M3($b: String, $a: Int!) { mmulti(a: $a, b: $b) }\n", [("b", "String", False), ("a", "Int!", False)])):
        for cfg in ({}, {"async_client": False}, {"convert_to_snake_case": False}):
            cases.append(dict(kind="multi", query=q2, op=q2.split("(")[0].split()[1], vars=vs, options=cfg, tags={"multi", "optional_before_required"}))
    q = "query M($a: Int!, $b: String, $c: Kind = A, $d: [Int] = [1, null]) { multi(a: $a, b: $b, c: $c, d: $d) }\n"
    for cfg in ({}, {"async_client": False}):
        cases.append(dict(kind="multi", query=q, op="M", vars=[("a", "Int!", False), ("b", "String", False), ("c", "Kind", True), ("d", "[Int]", True)], options=cfg, tags={"multi"}))
    # subscriptions: the websocket path has its own copy of the variables plumbing
    for n in NAME_CATALOGUE:
        cfgs = ({}, {"convert_to_snake_case": False}) if (tier != "quick" or n.lower().lstrip("_") in ("query", "variables", "data", "response", "gql", "self", "class", "foobar")) else ({},)
        for cfg in cfgs:
            q = f"subscription SN(${n}: Int, $other: String) {{ smulti(a: ${n}, b: $other) }}\n"
            cases.append(dict(kind="sub", query=q, op="SN", vars=[(n, "Int", False), ("other", "String", False)], options=cfg, tags={f"varname:{n}", "names", "subscription"}))
    for q2, vs in (("subscription SI($x: In, $r: Rec) { sin(x: $x, r: $r) }\n", [("x", "In", False), ("r", "Rec", False)]),
                   ("subscription SM($b: String, $a: Int!, $c: Kind = A, $d: [Int]) { smulti(a: $a, b: $b, c: $c, d: $d) }\n",
                    [("b", "String", False), ("a", "Int!", False), ("c", "Kind", True), ("d", "[Int]", False)]),
                   ("subscription SQ($query: In, $variables: Rec) { sin(x: $query, r: $variables) }\n", [("query", "In", False), ("variables", "Rec", False)])):
        for cfg in ({}, {"convert_to_snake_case": False}, {"opentelemetry_client": True}):
            cases.append(dict(kind="sub", query=q2, op=q2.split("(")[0].split()[1], vars=vs, options=cfg, tags={"multi", "subscription"}))
    # configured custom scalar (type + serialize) at every input position, incl. list items inside input fields
    # (top-level nullable / list-typed custom-scalar variables are the C07 findings "serialize called with UNSET/None/whole list" and are left to C07)
    sc_ops = [("query T1($x: Stamp!) { stamp(x: $x) }\n", [("x", "Stamp!", False)]),
              ("query T5($x: Win) { win(x: $x) }\n", [("x", "Win", False)]),
              ("query T6($ws: [Win!]) { win(ws: $ws) }\n", [("ws", "[Win!]", False)]),
              ("subscription T7($x: Win, $at: Stamp!) { swin(x: $x, at: $at) }\n", [("x", "Win", False), ("at", "Stamp!", False)])]
    for q2, vs in sc_ops:
        for cfg in ({}, {"async_client": False}, {"opentelemetry_client": True}, {"include_all_inputs": False}):
            if "subscription" in q2 and cfg.get("async_client") is False:
                continue
            cases.append(dict(kind="sub" if "subscription" in q2 else "scalar", query=q2, op=q2.split("(")[0].split()[1], vars=vs, options=dict(cfg), scalars=True,
                              tags={"configured_scalar"} | ({"subscription"} if "subscription" in q2 else set())))
    # a NULLABLE top-level variable of a configured scalar, called with present values only - among them a falsy one (0)
    for cfg in ({}, {"async_client": False}, {"opentelemetry_client": True}):
        cases.append(dict(kind="scalar", query="query T9($n: Count, $m: Count!) { count(n: $n, m: $m) }\n", op="T9", vars=[("n", "Count", False), ("m", "Count!", False)], options=dict(cfg), scalars=True,
                          present_only=["n"], tags={"configured_scalar", "nullable_scalar_present_values"}))
    # two variables of one configured scalar in one operation, and in two operations of one package (each evaluated)
    two = "query T8($from: Stamp!, $to: Stamp!) { stamp(x: $from) s2: stamp(x: $to) }\n"
    cases.append(dict(kind="scalar", query=two, op="T8", vars=[("from", "Stamp!", False), ("to", "Stamp!", False)], options={}, scalars=True, tags={"configured_scalar", "scalar_twice"}))
    doc2 = "query T9a($a: Stamp!) { stamp(x: $a) }\nquery T9b($b: Stamp!, $w: Win) { stamp(x: $b) win(x: $w) }\nmutation T9c($c: Stamp!) { mstamp(x: $c) }\n"
    for opn, vs in (("T9a", [("a", "Stamp!", False)]), ("T9b", [("b", "Stamp!", False), ("w", "Win", False)]), ("T9c", [("c", "Stamp!", False)])):
        cases.append(dict(kind="scalar", query=doc2, op=opn, vars=vs, options={}, scalars=True, tags={"configured_scalar", "scalar_in_several_operations", f"op:{opn}"}))
    # a configured scalar under the variable names the generated method uses for its own locals
    for n in ("query", "variables", "data", "response", "Query", "_query", "operation_name"):
        q = f"query NS(${n}: Stamp!, $other: String) {{ stamp(x: ${n}) multi(b: $other) }}\n"
        cases.append(dict(kind="scalar", query=q, op="NS", vars=[(n, "Stamp!", False), ("other", "String", False)], options={}, scalars=True, tags={"configured_scalar", f"varname:{n}", "scalar_named_like_local"}))
    # the same input types when the schema comes from introspection (no SDL nodes behind the fields)
    for c in [c for c in cases if c["kind"] == "typed" and c["options"] == {} and ("type:In" in c["tags"] or "type:Rec" in c["tags"]) and "nodefault" in c["tags"]]:
        cases.append(dict(c, introspection=True, tags=set(c["tags"]) | {"source:introspection"}))
    # the OpenTelemetry copies have a separate code path when a tracer is configured
    traced = [c for c in cases if c["options"] in ({}, {"async_client": False}) and (c["kind"] in ("multi", "sub", "scalar") or (c["kind"] == "typed" and ("type:In" in c["tags"] or "type:Rec" in c["tags"] or "shape:T" in c["tags"])))]
    for c in traced:
        if c["kind"] == "sub" and c["options"].get("async_client") is False:
            continue
        for tr in ("stub",) if tier == "quick" else ("stub", "noop"):
            cases.append(dict(c, options=dict(c["options"], opentelemetry_client=True), tracer=tr, tags=set(c["tags"]) | {f"tracer:{tr}"}))
    return cases


STAMP_MOD = '''
import datetime


def to_epoch(value):
    return int(value.timestamp())


def count_to_wire(value):
    if not isinstance(value, int) or isinstance(value, bool):
        raise TypeError(f"count_to_wire({value!r})")
    return "n" + str(value)
'''
STAMP_VALUES = {"Stamp": [0, 86400], "Count": [5, 0]}   # (Count 0: a valid, non-null, FALSY Python value)


def stamp_build(name, v):
    import datetime
    if name == "Count":
        return v
    return datetime.datetime.fromtimestamp(v, tz=datetime.timezone.utc)


def stamp_wire(name, v):
    return "n" + str(v) if name == "Count" else v


def opcheck_kind(options):
    from mc.opcheck import client_kind
    return client_kind(options)


def type_of(schema, tstr):
    from graphql import parse_type, type_from_ast
    return type_from_ast(schema, parse_type(tstr))


def evaluate(case):
    from ariadne_codegen.utils import process_name
    schema = get_schema()
    out = {"status": "ok", "calls": 0, "problems": [], "outcomes": set()}
    P = out["problems"]
    options = case["options"]
    snake = options.get("convert_to_snake_case", True)
    with genpkg.scratch() as d:
        files = None
        if case.get("scalars"):
            files = {"stamp_mod.py": STAMP_MOD}
            options = dict(options, files_to_include=[f"{d}/stamp_mod.py"],
                           scalars={"Stamp": {"type": "datetime.datetime", "serialize": ".stamp_mod.to_epoch"}, "Count": {"type": "int", "serialize": ".stamp_mod.count_to_wire"}})
        custom = STAMP_VALUES if case.get("scalars") else None
        if case.get("introspection"):
            genpkg.serve_introspection(SCHEMA_I)
            options = dict(options, remote_schema_url="http://verif.invalid/graphql")
        try:
            pkg, pdir, _ = genpkg.generate(d, SCHEMA_I, case["query"], options, files=files)
            mod, mods = genpkg.import_package(d, pkg)
        except genpkg.GenError as e:
            out.update(status="gen_error", error=str(e), error_type=e.exc_type)
            return out
        except BaseException as e:  # noqa
            out.update(status="import_error", error=f"{type(e).__name__}: {e}", error_type=type(e).__name__)
            return out
        is_async = options.get("async_client", True)
        mname = process_name(case["op"], convert_to_snake_case=True)
        vars_ = case["vars"]
        menus = {}
        for vn, vt, dflt in vars_:
            t = type_of(schema, vt)
            m = inputs.menu(t, depth=2, custom=custom)
            cap = case.get("menu_cap", 14 if "In" not in vt and "Rec" not in vt else 48)
            m = m[:cap]
            from graphql import is_non_null_type
            required = is_non_null_type(t) and not dflt
            if vn in (case.get("present_only") or ()):
                # only present values for this nullable variable (omitted / None at a configured scalar are C07's recorded findings)
                m = [x for x in m if x[0] == "custom"]
                menus[vn] = (m, False, True)
                continue
            menus[vn] = (m, required, is_non_null_type(t))
        # call plans: vary one variable at a time, others at their first value (or omitted)
        plans = []
        base = {vn: (menus[vn][0][0] if menus[vn][2] else inputs.OMIT) for vn, _, _ in vars_}
        plans.append(dict(base))
        for vn, _, _ in vars_:
            m, required, nn = menus[vn]
            for v in m:
                p = dict(base)
                p[vn] = v
                plans.append(p)
            if not nn or required:
                p = dict(base)
                p[vn] = inputs.OMIT
                plans.append(p)  # optional: key must be absent; required: must raise TypeError
            # (a non-null variable with a default may or may not be a required Python parameter: nothing demanded)
        if len(vars_) > 1:
            plans.append({vn: (menus[vn][0][0]) for vn, _, _ in vars_})
            plans.append({vn: (menus[vn][0][-1] if not menus[vn][2] else menus[vn][0][0]) for vn, _, _ in vars_})
        seen = set()
        for plan in plans:
            key = json.dumps(sorted(plan.items()), default=str)
            if key in seen:
                continue
            seen.add(key)
            out["calls"] += 1
            missing_required = [vn for vn, (m, required, nn) in menus.items() if required and plan[vn] == inputs.OMIT]
            try:
                kwargs = {process_name(vn, convert_to_snake_case=snake): inputs.build(v, mod, stamp_build) for vn, v in plan.items() if v != inputs.OMIT}
            except Exception as e:  # noqa
                P.append(("cannot_build_argument", f"{type(e).__name__}: {e}", {"plan": plan}))
                continue
            ckw = clients.tracer_kwargs(opcheck_kind(options), case.get("tracer", "none"))
            if case["kind"] == "sub":
                captured, (st, val) = inputs.call_and_capture_ws(mod, mods, mod.Client, mname, kwargs, client_kwargs=ckw)
            else:
                captured, (st, val) = inputs.call_and_capture(mod, mod.Client, is_async, mname, kwargs, client_kwargs=ckw)
            ctx = {"plan": {k: v for k, v in plan.items()}}
            if missing_required:
                if st == "exc" and isinstance(val, TypeError) and not captured:
                    out["outcomes"].add("required_omitted_raises_TypeError")
                else:
                    P.append(("required_can_be_omitted", f"omitting {missing_required} gave {st} {val!r}, requests={len(captured)}", ctx))
                continue
            if len(captured) != 1:
                P.append(("call_failed", f"{st}: {val!r} (requests sent: {len(captured)})", ctx))
                continue
            sent = captured[0].get("variables")
            ref = {vn: inputs.ref_wire(v, stamp_wire) for vn, v in plan.items() if v != inputs.OMIT}
            errs, rec, exerrs = inputs.run_reference(schema, captured[0]["query"], sent, captured[0].get("operationName"))
            if errs:
                P.append(("coercion_rejects_sent_variables", f"sent {json.dumps(sent)}: {errs[:2]}", ctx))
                continue
            rerrs, rrec, _ = inputs.run_reference(schema, case["query"], ref, case["op"])
            if rerrs:
                P.append(("harness_reference_invalid", f"{rerrs}", ctx))
                continue
            if rec != rrec:
                P.append(("resolver_received_other_value", f"resolver got {rec} expected {rrec} (sent {json.dumps(sent)})", ctx))
            if sent != ref:
                clause = "wire_shape" if keyshape(sent) != keyshape(ref) else "wire_value"
                P.append((clause, f"sent {json.dumps(sent)} expected {json.dumps(ref)}", ctx))
            out["outcomes"].add("delivered")
    out["outcomes"] = sorted(out["outcomes"])
    return out


def keyshape(v):
    if isinstance(v, dict):
        return {k: keyshape(x) for k, x in v.items()}
    if isinstance(v, list):
        return [keyshape(x) for x in v]
    return "null" if v is None else "v"


def plan_features(plan):
    f = set()

    def rec(s, inlist):
        if s == inputs.OMIT:
            f.add("arg:omitted")
            return
        f.add(f"val:{s[0]}")
        if s[0] == "none" and inlist:
            f.add("null_list_item")
        if s[0] == "list":
            for x in s[1]:
                rec(x, True)
        if s[0] == "input":
            for n, v in s[2]:
                f.add(f"field:{n}")
                rec(v, False)
        if s[0] == "enum":
            f.add(f"enum:{s[2]}")
    for v in plan.values():
        rec(tuple_(v), False)
    return f


def tuple_(x):
    return tuple(tuple_(i) for i in x) if isinstance(x, list) else x


def main(tier):
    rep = Report("C03", tier, "exploration")
    genpkg.warm()
    cases = build_cases(tier)
    results = pool.run_cases(evaluate, cases, timeout=300, progress=500)
    calls = 0
    outcomes = set()
    distinct = 0
    for case, (st, r) in zip(cases, results):
        tags = set(case["tags"]) | {f"cfg:{k}={v}" for k, v in case["options"].items()}
        desc = {"query": case["query"], "options": case["options"], "op": case["op"], "tracer": case.get("tracer", "none"), "introspection": bool(case.get("introspection"))}
        if rep.triage:
            rep.seen(tags)
        if st != "ok":
            rep.violation("harness_" + st, tags, str(r)[:500], desc)
            continue
        if r["status"] != "ok":
            rep.violation(f'{r["status"]}:{r.get("error_type")}', tags, r["error"], desc)
            continue
        calls += r["calls"]
        outcomes.update(r["outcomes"])
        if r["calls"] > 1:
            distinct += 1
        for clause, detail, ctx in r["problems"]:
            rep.violation(clause, tags | plan_features(ctx.get("plan", {})), detail, dict(desc, **ctx))
        if len(rep.samples) < 4 and case["kind"] == "typed" and "type:In" in tags:
            rep.sample({"query": case["query"], "calls": r["calls"], "outcomes": r["outcomes"]})
    return rep.finish({
        "evaluations": calls,
        "distinct_nontrivial": distinct,
        "rule": "evaluation = one call of a generated method with symbolic arguments built from the variable type's value menu (every menu value, explicit None, omitted; one variable varied at a time), "
                "captured and replayed through graphql-core coercion + recording resolver; distinct = operations with more than one call",
        "exhaustive": True, "operations": len(cases), "observed_outcomes": sorted(outcomes),
    }, assumptions=["method parameter annotations are not enforced at run time and are not part of the property",
                    "value menus are derived from the schema types (canonical scalars, every enum member, lists of length 0/1/2, input objects with subsets of optional fields, depth 2)"])


def replay(path):
    rec = json.load(open(path))
    c = rec["case"]
    genpkg.warm()
    case = next((x for x in build_cases("thorough") if x["query"] == c["query"] and x["options"] == c["options"] and x["op"] == c.get("op", x["op"])
                 and x.get("tracer", "none") == c.get("tracer", "none") and bool(x.get("introspection")) == bool(c.get("introspection"))), None)
    if case is None:
        print("case not found")
        return 1
    st, r = pool.run_forked(evaluate, case)
    print(st, r if st != "ok" else {k: v for k, v in r.items() if k != "problems"})
    hits = [p for p in (r or {}).get("problems", []) if p[0] == rec["clause"]] if st == "ok" else [1]
    for h in hits[:5]:
        print("  ", h)
    return 1 if hits or (st == "ok" and r["status"] != "ok") else 0
