"""C18 — GraphQL names map lawfully to Python names.

String phase: ALL names of [_A-Za-z][_0-9A-Za-z]* over the alphabet {a,b,A,B,_,1} up to length 6 (quick) / 7 (thorough)
plus the reserved-name catalogue, through the real mapping functions with the flag combinations each call site uses;
laws: identifier, not keyword, not a pydantic attribute (where the call site asks), deterministic, idempotent,
letters/digits kept in order.  Pair phase: every pair of distinct names (length <= 3 over the alphabet, plus catalogue
pairs) that the mapping merges into one Python name is pushed through the REAL generator in each scope (response keys,
input fields, variables, operations, enum values): either generation refuses with a CodeGenException, or both names
stay usable.  Catalogue names are also pushed through every scope on their own.
"""
from __future__ import annotations

import itertools
import json
import keyword

from mc import clients, genpkg, pool
from mc.report import Report, seed

ALPHABET = "abAB_1"
FIRST = "abAB_"


def all_names(maxlen):
    for n in range(1, maxlen + 1):
        for first in FIRST:
            for rest in itertools.product(ALPHABET, repeat=n - 1):
                yield first + "".join(rest)


def catalogue():
    import pydantic
    names = list(keyword.kwlist) + list(keyword.softkwlist)
    names += [n for n in dir(pydantic.BaseModel) if not n.startswith("_")]
    names += ["mro", "name", "value", "_missing_", "_ignore_", "_order_", "self", "kwargs", "query", "variables", "response", "data",
              "_query", "gql", "cls", "Field", "Optional", "List", "Any", "BaseModel", "id", "ID", "Id", "userID", "HTTPResponse",
              "snake_case", "camelCase", "PascalCase", "ALLCAPS", "with1Digit", "a1b2", "_leading", "trailing_", "__dunder__", "_", "__", "x_", "_x_"]
    out, seen = [], set()
    for n in names:
        if n not in seen and not n.startswith("__") or n in ("__", "__dunder__"):
            if n not in seen:
                seen.add(n)
                out.append(n)
    return out


# call sites and their flags: (label, kwargs, forced snake)
SITES = [
    ("result_or_input_field", dict(trim_leading_underscore=True, handle_pydantic_resrved_field_names=True), None),
    ("argument", dict(), None),
    ("operation", dict(), True),
]


def alnum(s):
    return [c for c in s.lower() if c.isalnum()]


def is_subseq(a, b):
    it = iter(b)
    return all(c in it for c in a)


def string_phase(rep, maxlen):
    from ariadne_codegen.utils import PYDANTIC_RESERVED_FIELD_NAMES, process_name
    import pydantic
    reserved = {n for n in dir(pydantic.BaseModel) if not n.startswith("_")}
    names = list(all_names(maxlen)) + [n for n in catalogue() if not n.startswith("__") or True]
    evals = 0
    images = {}
    outputs = set()
    for site, kw, forced in SITES:
        for snake in ((True, False) if forced is None else (forced,)):
            img = {}
            for n in names:
                if n.startswith("__") and site != "argument":
                    pass  # GraphQL reserves __ names for introspection but aliases may not use them either; still lawful input for the function
                evals += 1
                r = process_name(n, convert_to_snake_case=snake, **kw)
                r2 = process_name(n, convert_to_snake_case=snake, **kw)
                case = {"site": site, "snake": snake, "name": n, "result": r}
                feats = {f"site:{site}", f"snake:{snake}"} | name_features(n)
                if r != r2:
                    rep.violation("not_deterministic", feats, f"{n!r} -> {r!r} then {r2!r}", case)
                if not r.isidentifier():
                    rep.violation("not_identifier", feats, f"{n!r} -> {r!r}", case)
                elif keyword.iskeyword(r):
                    rep.violation("is_keyword", feats, f"{n!r} -> {r!r}", case)
                if kw.get("handle_pydantic_resrved_field_names") and r in reserved:
                    rep.violation("shadows_pydantic_attribute", feats, f"{n!r} -> {r!r}", case)
                rr = process_name(r, convert_to_snake_case=snake, **kw) if r.isidentifier() else r
                if rr != r:
                    rep.violation("not_idempotent", feats, f"{n!r} -> {r!r} -> {rr!r}", case)
                if not is_subseq(alnum(n), alnum(r)):
                    rep.violation("letters_or_digits_lost", feats, f"{n!r} -> {r!r}", case)
                img[n] = r
                outputs.add(r)
            images[(site, snake)] = img
    return evals, images, len(outputs), len(names)


def name_features(n):
    f = set()
    if set(n) == {"_"}:
        f.add("all_underscores")
    if n.startswith("_"):
        f.add("leading_underscore")
    if n.endswith("_"):
        f.add("trailing_underscore")
    if "__" in n:
        f.add("double_underscore")
    if any(c.isdigit() for c in n):
        f.add("has_digit")
    if keyword.iskeyword(n) or keyword.iskeyword(n.lower()):
        f.add("keyword_like")
    if n != n.lower() and n != n.upper():
        f.add("mixed_case")
    if n.isupper():
        f.add("all_upper")
    import re
    if re.match(r"^_+\d", n):
        f.add("underscore_digit_start")
    return f


# ------------------------------------------------------------------ generator phase
def scope_inputs(scope, n1, n2):
    """Return (schema, queries, op names) using the two names in the given scope."""
    if scope == "response_keys":
        return "type Query { user: User }\ntype User { id: ID! name: String }\n", f"query P {{ user {{ {n1}: id {n2}: name }} }}\n"
    if scope == "response_keys_objects":
        # the same object-typed field under two response keys with different sub-selections: two keys, two nested classes
        return "type Query { user: User }\ntype User { id: ID! name: String friend: User }\n", f"query P {{ user {{ {n1}: friend {{ id }} {n2}: friend {{ name }} }} }}\n"
    if scope == "result_fields":
        return f"type Query {{ user: User }}\ntype User {{ {n1}: ID! {n2}: String }}\n", f"query P {{ user {{ {n1} {n2} }} }}\n"
    if scope == "input_fields":
        return f"type Query {{ f(i: I): Int }}\ninput I {{ {n1}: Int {n2}: Int }}\n", "query P($i: I) { f(i: $i) }\n"
    if scope == "variables":
        # (a nullable variable declared before a required one: the signature reorders them, the wire names must not move)
        return "type Query { f(a: Int, b: Int): Int }\n", f"query P(${n1}: Int, ${n2}: Int!) {{ f(a: ${n1}, b: ${n2}) }}\n"
    if scope == "operations":
        return "type Query { a: Int b: Int }\n", f"query {n1} {{ a }}\nquery {n2} {{ b }}\n"
    if scope == "typename_alias":
        return "type Query { user: User }\ntype User { id: ID! name: String }\n", f"query P {{ user {{ __typename {n1}: __typename zq: id }} }}\n"
    if scope == "subscription_variables":
        return "type Query { a: Int }\ntype Subscription { f(a: Int, b: Int): Int }\n", f"subscription P(${n1}: Int, ${n2}: Int) {{ f(a: ${n1}, b: ${n2}) }}\n"
    if scope == "enum_values":
        return f"type Query {{ e: E }}\nenum E {{ {n1} {n2} }}\n", "query P { e }\n"
    if scope == "enum_value_as_default":
        return f"type Query {{ f(i: I): E }}\nenum E {{ {n1} {n2} }}\ninput I {{ e: E = {n1} es: [E!] = [{n2}, {n1}] }}\n", "query P($i: I) { f(i: $i) }\n"
    raise ValueError(scope)


SCOPES = ["response_keys", "response_keys_objects", "result_fields", "input_fields", "variables", "operations", "enum_values", "enum_value_as_default", "typename_alias", "subscription_variables"]


def scope_case(case):
    """Generate with the two names in the scope; report 'refused' or check both names stay usable."""
    import httpx
    import pydantic
    from ariadne_codegen.exceptions import CodeGenException
    scope, n1, n2, snake = case[:4]
    cfg = dict(case[4]) if len(case) > 4 else {}
    if scope == "operation_vs_module":
        return module_collision_case(n1, cfg)
    is_async = cfg.get("async_client", True)
    schema, queries = scope_inputs(scope, n1, n2)
    out = {"status": "ok", "problems": []}
    P = out["problems"]
    with genpkg.scratch() as d:
        try:
            pkg, pdir, _ = genpkg.generate(d, schema, queries, dict(cfg, convert_to_snake_case=snake))
        except genpkg.GenError as e:
            if isinstance(e.exc, CodeGenException):
                out["status"] = "refused"
                return out
            out["status"] = "gen_error"
            out["error"] = str(e)
            out["error_type"] = e.exc_type
            return out
        try:
            mod, mods = genpkg.import_package(d, pkg)
        except BaseException as e:  # noqa
            out["status"] = "import_error"
            out["error"] = f"{type(e).__name__}: {e}"
            out["error_type"] = type(e).__name__
            return out
        captured = []

        def handler(request):
            captured.append(json.loads(request.content))
            body = captured[-1]
            data = {"response_keys": {"user": {n1: "i", n2: "n"}}, "response_keys_objects": {"user": {n1: {"id": "i"}, n2: {"name": "n"}}}, "result_fields": {"user": {n1: "i", n2: "n"}}, "input_fields": {"f": 1},
                    "variables": {"f": 1}, "operations": {"a": 1, "b": 2}, "enum_values": {"e": n2}, "enum_value_as_default": {"f": n1},
                    "typename_alias": {"user": {"__typename": "User", n1: "User", "zq": "i"}}, "subscription_variables": {"f": 1}}[scope]
            return httpx.Response(200, json={"data": data})
        c = clients.make_client(mod.Client, is_async, handler)
        methods = [m for m in vars(mod.Client) if not m.startswith("__")]
        try:
            if scope in ("response_keys", "result_fields", "response_keys_objects"):
                r = clients.call(is_async, c.p)
                u = r.user
                got = u.model_dump(by_alias=True)
                want = {n1: "i", n2: "n"} if scope != "response_keys_objects" else {n1: {"id": "i"}, n2: {"name": "n"}}
                if got != want:
                    P.append(("names_merged", f"response {want} read back as {got}"))
                if len(type(u).model_fields) != 2:
                    P.append(("names_merged", f"model has fields {list(type(u).model_fields)}"))
                for fn in type(u).model_fields:
                    if keyword.iskeyword(fn) or not fn.isidentifier() or fn in dir(pydantic.BaseModel):
                        P.append(("bad_python_name", f"field {fn!r}"))
            elif scope == "typename_alias":
                r = clients.call(is_async, c.p)
                u = r.user
                want = {"__typename": "User", n1: "User", "zq": "i"}
                got = u.model_dump(by_alias=True)
                if got != want:
                    P.append(("names_merged", f"response {want} read back as {got}"))
                if len(type(u).model_fields) != 3:
                    P.append(("names_merged", f"model has fields {list(type(u).model_fields)}"))
            elif scope == "subscription_variables":
                import inspect
                from mc import inputs
                params = [p for p in inspect.signature(mod.Client.p).parameters if p not in ("self", "kwargs")]
                if len(params) != 2:
                    P.append(("names_merged", f"method parameters {params}"))
                else:
                    subs, (st_, val) = inputs.call_and_capture_ws(mod, mods, mod.Client, "p", {params[0]: 1, params[1]: 2}, data={"f": 7})
                    if st_ != "ok" or len(subs) != 1:
                        P.append(("unusable", f"subscription failed: {val!r} ({len(subs)} subscribe frames)"))
                    else:
                        if subs[0].get("variables") != {n1: 1, n2: 2}:
                            P.append(("names_merged", f"sent variables {subs[0].get('variables')} for parameters {params}"))
                        if [getattr(x, "f", None) for x in val] != [7]:
                            P.append(("server_data_replaced", f"the iterator yielded {val!r}, the server sent f=7"))
            elif scope == "input_fields":
                I = mod.I
                fields = list(I.model_fields)
                if len(fields) != 2:
                    P.append(("names_merged", f"input model has fields {fields}"))
                else:
                    for fn in fields:
                        if keyword.iskeyword(fn) or not fn.isidentifier() or fn in dir(pydantic.BaseModel):
                            P.append(("bad_python_name", f"input field {fn!r}"))
                    byalias = {(fi.alias or fn): fn for fn, fi in I.model_fields.items()}
                    if set(byalias) != {n1, n2}:
                        P.append(("wire_name_changed", f"aliases {sorted(byalias)} expected {[n1, n2]}"))
                    else:
                        inst = I(**{byalias[n1]: 1, byalias[n2]: 2})
                        clients.call(is_async, c.p, i=inst)
                        sent = captured[-1]["variables"].get("i")
                        if sent != {n1: 1, n2: 2}:
                            P.append(("names_merged", f"sent input {sent}"))
            elif scope == "variables":
                import inspect
                params = [p for p in inspect.signature(mod.Client.p).parameters if p not in ("self", "kwargs")]
                if len(params) != 2:
                    P.append(("names_merged", f"method parameters {params}"))
                else:
                    # n2 is the required variable: its parameter is the one without a default
                    sig = inspect.signature(mod.Client.p).parameters
                    req = [p for p in params if sig[p].default is inspect.Parameter.empty]
                    p2 = req[0] if len(req) == 1 else params[1]
                    p1 = next(p for p in params if p != p2)
                    clients.call(is_async, c.p, **{p1: 1, p2: 2})
                    sent = captured[-1]["variables"]
                    if sent != {n1: 1, n2: 2}:
                        P.append(("names_merged", f"sent variables {sent} for parameters {params}"))
            elif scope == "operations":
                ms = [m for m in methods if callable(getattr(mod.Client, m))]
                if len(ms) != 2:
                    P.append(("names_merged", f"client methods {ms}"))
                names_sent = set()
                for m in ms:
                    try:
                        clients.call(is_async, getattr(c, m))
                    except Exception:  # noqa
                        pass
                    if captured:
                        names_sent.add(captured[-1].get("operationName"))
                if names_sent != {n1, n2}:
                    P.append(("names_merged", f"operationNames sent by the client's methods: {sorted(map(str, names_sent))}"))
            elif scope == "enum_value_as_default":
                inst = mod.I()
                got = (getattr(inst.e, "value", inst.e), [getattr(x, "value", x) for x in inst.es])
                if got != (n1, [n2, n1]):
                    P.append(("enum_default_lost", f"I() reads back {got}, schema defaults ({n1}, [{n2}, {n1}])"))
            elif scope == "enum_values":
                E = mod.E
                vals = sorted(m.value for m in E)
                if vals != sorted([n1, n2]):
                    P.append(("names_merged", f"enum members {[(m.name, m.value) for m in E]}"))
                r = clients.call(is_async, c.p)
                if getattr(r.e, "value", None) != n2:
                    P.append(("enum_value_lost", f"{r.e!r}"))
        except Exception as e:  # noqa
            import traceback
            P.append(("unusable", f"{type(e).__name__}: {str(e)[:300]}"))
    return out


MODULE_CFGS = [("default", {}), ("sync", {"async_client": False}), ("ot", {"opentelemetry_client": True}), ("sync_ot", {"async_client": False, "opentelemetry_client": True}),
               ("custom_operations", {"enable_custom_operations": True}), ("extract", {"plugins": ["ariadne_codegen.contrib.extract_operations.ExtractOperationsPlugin"]})]
MC_SCHEMA = "enum E { A }\ninput I { a: Int }\ninterface N { id: ID }\ntype T implements N { id: ID e: E }\ntype Query { t(i: I): T n: N }\n"
MC_FRAG = "fragment F on T { id }\n"
# document shapes around the operation under test: which of the package's optional modules (fragments.py ...) exist, and why, varies with them
MC_SHAPES = {
    "plain_fragment": ("query {op}($i: I) {{ t(i: $i) {{ ...F e }} }}\n" + MC_FRAG.replace("{", "{{").replace("}", "}}")),
    "no_fragment": "query {op}($i: I) {{ t(i: $i) {{ id e }} }}\n",
    "unpacked_only": "query {op}($i: I) {{ t(i: $i) {{ ...NF e }} }}\nfragment NF on N {{ id }}\n",
    "unpacked_and_base": "query {op}($i: I) {{ t(i: $i) {{ ...NF e }} }}\nquery ZzOther {{ n {{ ...NF }} }}\nfragment NF on N {{ id }}\n",
    "base_and_unpacked": "query AaOther {{ n {{ ...NF }} }}\nquery {op}($i: I) {{ t(i: $i) {{ ...NF e }} }}\nfragment NF on N {{ id }}\n",
    "unused_fragment": "query {op}($i: I) {{ t(i: $i) {{ id e }} }}\nfragment Unused on T {{ id }}\n",
}


def module_stems(cfg):
    """File stems of a package generated for one harmless operation under cfg (computed by generating it, in a forked child)."""
    def gen(_):
        with genpkg.scratch() as d:
            pkg, pdir, _ = genpkg.generate(d, MC_SCHEMA, "query ZzProbe($i: I) { t(i: $i) { ...F e } }\n" + MC_FRAG, dict(cfg))
            mod, mods = genpkg.import_package(d, pkg)
            return {k: sorted(n for n, v in vars(m).items() if not n.startswith("_") and getattr(v, "__module__", None) == m.__name__) for k, m in mods.items() if k not in ("__init__", "zz_probe")}
    st, r = pool.run_forked(gen, None, timeout=300)
    return r if st == "ok" else {}


def module_collision_case(opname, cfg):
    """An operation whose module name equals a fixed module of the package: generation must refuse, or everything stays usable."""
    import httpx
    from ariadne_codegen.exceptions import CodeGenException
    baseline = cfg.pop("__baseline__")
    shape = cfg.pop("__shape__", "plain_fragment")
    if shape != "plain_fragment":
        baseline = {k: v for k, v in baseline.items() if k != "fragments"}   # (which fragment classes exist is C08's subject)
    out = {"status": "ok", "problems": []}
    P = out["problems"]
    with genpkg.scratch() as d:
        try:
            pkg, pdir, _ = genpkg.generate(d, MC_SCHEMA, MC_SHAPES[shape].format(op=opname), dict(cfg))
        except genpkg.GenError as e:
            out["status"] = "refused" if isinstance(e.exc, CodeGenException) else "gen_error"
            out["error"], out["error_type"] = str(e), e.exc_type
            return out
        try:
            mod, mods = genpkg.import_package(d, pkg)
        except BaseException as e:  # noqa
            out.update(status="import_error", error=f"{type(e).__name__}: {e}", error_type=type(e).__name__)
            return out
        for stem, names in baseline.items():
            have = set(vars(mods[stem])) if stem in mods else set()
            lost = [n for n in names if n not in have]
            if lost:
                P.append(("names_merged", f"module {stem} of the package lost {lost[:5]} (an operation module took its place)"))
        captured = []

        def handler(request):
            captured.append(json.loads(request.content))
            return httpx.Response(200, json={"data": {"t": {"id": "1", "e": "A"}}})
        is_async = cfg.get("async_client", True)
        try:
            c = clients.make_client(mod.Client, is_async, handler)
            from mc.opcheck import find_method
            r = clients.call(is_async, getattr(c, find_method(mod.Client, opname)))
            if not captured or captured[-1].get("operationName") != opname:
                P.append(("names_merged", f"operationName sent: {captured[-1].get('operationName') if captured else None}"))
            if getattr(getattr(r, "t", None), "id", None) != "1":
                P.append(("unusable", f"result {r!r}"))
        except Exception as e:  # noqa
            P.append(("unusable", f"{type(e).__name__}: {str(e)[:300]}"))
    return out


# variables named like the locals of the generated subscription method (and a few ordinary ones)
SUB_NAMES = {"query", "variables", "data", "response", "gql", "self", "kwargs", "Query", "Data", "Variables", "_data", "_query", "operation_name", "class", "zz", "camelCase", "id", "copy"}


def colliding_pairs(images, names):
    """Pairs of distinct names merged by the mapping, per scope's call site."""
    site_of = {"response_keys": "result_or_input_field", "response_keys_objects": "result_or_input_field", "result_fields": "result_or_input_field", "input_fields": "result_or_input_field",
               "variables": "argument", "operations": "operation"}
    out = []
    for scope, site in site_of.items():
        for snake in ((True, False) if scope != "operations" else (True,)):
            img = images[(site, snake)]
            groups = {}
            for n in names:
                groups.setdefault(img[n], []).append(n)
            for py, ns in groups.items():
                if len(ns) > 1:
                    # representative pairs: first with each other (keeps the count linear)
                    for other in ns[1:4]:
                        out.append((scope, ns[0], other, snake))
    return out


def main(tier):
    rep = Report("C18", tier, "exploration")
    genpkg.warm()
    maxlen = 6 if tier == "quick" else 7
    evals, images, n_outputs, n_names = string_phase(rep, maxlen)
    short = [n for n in all_names(3 if tier == "quick" else 4) if not n.startswith("__")]
    cat = [n for n in catalogue() if not n.startswith("__")]
    pairs = colliding_pairs(images, short + cat)
    if tier == "quick":
        step = 3
        pairs = pairs[seed() % step::step] if len(pairs) > 900 else pairs
    cases = list(pairs)
    for n in cat:
        for scope in SCOPES:
            if scope in ("enum_values", "enum_value_as_default") and n in ("true", "false", "null"):
                continue
            if scope == "subscription_variables" and n not in SUB_NAMES:
                continue
            for snake in ((True, False) if scope != "operations" else (True,)):
                cases.append((scope, n, "zzOther", snake))
    # wire names through every bundled base client (the four copies serialise input models separately)
    for n in cat:
        for cfg in ({"async_client": False}, {"opentelemetry_client": True}, {"async_client": False, "opentelemetry_client": True}):
            for snake in (True, False):
                if tier == "quick" and not snake and n.islower() and "_" not in n:
                    continue
                cases.append(("input_fields", n, "zzOther", snake, tuple(sorted(cfg.items()))))
    # operations named like a fixed module of the package, for every configuration that adds fixed modules
    from ariadne_codegen.utils import str_to_pascal_case
    for label, cfg in MODULE_CFGS:
        stems = module_stems(cfg)
        for stem in stems:
            for opname in sorted({stem, str_to_pascal_case(stem), stem.upper()}):
                for shape in MC_SHAPES:
                    if shape != "plain_fragment" and tier == "quick" and (opname != stem or label not in ("default", "custom_operations")) and stem != "fragments":
                        continue
                    cases.append(("operation_vs_module", opname, label + ":" + shape, True, tuple(sorted(dict(cfg, __baseline__=stems, __shape__=shape).items(), key=lambda kv: kv[0]))))
    # enum scope: keyword / Enum-reserved names as sibling values
    for a, b in (("class", "class_"), ("mro", "name"), ("None", "True"), ("_missing_", "value")):
        cases.append(("enum_values", a, b, True))
    results = pool.run_cases(scope_case, cases, timeout=300, progress=2000)
    counts = {"refused": 0, "ok": 0, "gen_error": 0, "import_error": 0}
    distinct = set()
    for case, (st, r) in zip(cases, results):
        scope, n1, n2, snake = case[:4]
        feats = ({f"cfg:{k}={v}" for k, v in case[4] if not k.startswith("__")} if len(case) > 4 else set()) | {f"scope:{scope}", f"snake:{snake}"} | {f"name:{n}" for n in (n1, n2) if n != "zzOther"} | name_features(n1) | (name_features(n2) if n2 != "zzOther" else set())
        if n2 == "zzOther":
            feats.add("single_name")
        else:
            feats.add("colliding_pair")
            feats.add(f"pair@{scope}")
        desc = {"scope": scope, "names": [n1, n2], "snake": snake, "cfg": [list(kv) for kv in case[4] if not kv[0].startswith("__")] if len(case) > 4 else []}
        if scope == "operation_vs_module":
            feats = {f"scope:{scope}", f"module_cfg:{n2.split(':')[0]}", f"opname:{n1}"} | ({f"doc_shape:{n2.split(':')[1]}"} if ":" in n2 else set())
        if rep.triage:
            rep.seen(feats)
        if st != "ok":
            rep.violation("harness_" + st, feats, str(r)[:400], desc)
            continue
        counts[r["status"]] = counts.get(r["status"], 0) + 1
        distinct.add((scope, n1, n2))
        if r["status"] in ("gen_error", "import_error"):
            rep.violation(f'{r["status"]}:{r.get("error_type")}', feats, r["error"], desc)
        for clause, detail in r["problems"]:
            rep.violation(clause, feats, detail, desc)
    rep.sample({"phase": "string", "example": {"name": "aB1", "snake": True, "site": "result_or_input_field", "result": images[("result_or_input_field", True)].get("aB1")}})
    if pairs:
        rep.sample({"phase": "generator", "colliding_pair": list(pairs[0])})
    rep.sample({"phase": "generator", "catalogue_name_case": ["response_keys", "class", "zzOther", True]})
    return rep.finish({
        "evaluations": evals + len(cases),
        "distinct_nontrivial": n_outputs + len(distinct),
        "rule": f"string phase: every name over {{a,b,A,B,_,1}} up to length {maxlen} plus the reserved-name catalogue x snake on/off x the flag sets of the 3 call sites "
                "(distinct = distinct outputs); generator phase: every merged pair (<=3 representatives per merged group) of names up to length 3/4 and catalogue, per scope, "
                "and every catalogue name alone in every scope, through the real generator",
        "exhaustive": True,
        "names_enumerated": n_names, "mapping_calls": evals, "generator_cases": len(cases), "colliding_pair_cases": len(pairs),
        "generator_outcomes": counts,
    }, assumptions=["names are ASCII GraphQL names; the reduced alphabet {a,b,A,B,_,1} stands for letters/case/underscore/digit classes",
                    "a refusal is any ariadne_codegen.exceptions.CodeGenException raised by generation"])


def replay(path):
    rec = json.load(open(path))
    c = rec["case"]
    genpkg.warm()
    if "scope" in c:
        cfg = tuple(tuple(kv) for kv in (c.get("cfg") or []))
        if c["scope"] == "operation_vs_module":
            base = dict(MODULE_CFGS)[c["names"][1]]
            cfg = tuple(sorted(dict(base, __baseline__=module_stems(base)).items(), key=lambda kv: kv[0]))
        st, r = pool.run_forked(scope_case, (c["scope"], c["names"][0], c["names"][1], c["snake"]) + ((cfg,) if cfg else ()))
        print(st, r)
        return 1 if st != "ok" or r["status"] not in ("ok", "refused") or r["problems"] else 0
    from ariadne_codegen.utils import process_name
    kw = dict(SITES)[c["site"]] if False else {s[0]: s[1] for s in SITES}[c["site"]]
    print(c["name"], "->", process_name(c["name"], convert_to_snake_case=c["snake"], **kw))
    return 1
