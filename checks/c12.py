"""C12 — every HTTP response is classified into exactly one documented outcome.

Finite decision table, enumerated completely: every status 100..599 x body classes x the
four bundled clients' get_data; then the generated method (sync/async x plain/OpenTelemetry
x tracer variants) on every body class x representative statuses, through MockTransport.
Oracle: a reference decision function written from the property statement.
"""
from __future__ import annotations

import json

import httpx

from mc import clients, genpkg, pool
from mc.report import Report

E_MIN = {"message": "boom"}
E_FULL = {"message": "bad", "locations": [{"line": 1, "column": 2}], "path": ["a", 0, "b"], "extensions": {"code": "X"}}
E_EXTRA = {"message": "m3", "extensions": {}, "foo": 1}
DATA = {"a": 1}


def body_classes():
    J = lambda o: json.dumps(o).encode()
    return [
        ("nonjson", b"<html>oops</html>"),
        ("invalid_utf8", b"\xff\xfe\x00{"),
        ("invalid_utf8_latin1_text", b"\x80\x81 not json"),
        ("invalid_utf8_inside_json", b'{"data": {"a": "\xff"}}'),
        ("utf16_encoded_json", '{"data": {"a": 1}}'.encode("utf-16")),
        ("empty", b""),
        ("json_number", b"1"),
        ("json_string", b'"data"'),
        ("json_true", b"true"),
        ("json_null", b"null"),
        ("json_array", b"[]"),
        ("json_array_of_obj", J([{"data": DATA}])),
        ("empty_object", b"{}"),
        ("extensions_only", J({"extensions": {"x": 1}})),
        ("data_only", J({"data": DATA})),
        ("data_null", J({"data": None})),
        ("data_and_extensions", J({"data": DATA, "extensions": {"x": 1}})),
        ("data_list", J({"data": [1]})),
        ("data_wrong_field_type", J({"data": {"a": "x"}})),
        ("data_missing_field", J({"data": {}})),
        ("errors_empty", J({"errors": []})),
        ("errors_empty_with_data", J({"errors": [], "data": DATA})),
        ("errors_one", J({"errors": [E_MIN]})),
        ("errors_one_full", J({"errors": [E_FULL]})),
        ("errors_two_with_data", J({"errors": [E_MIN, E_FULL], "data": DATA})),
        ("errors_one_data_null", J({"errors": [E_EXTRA], "data": None})),
        ("errors_with_extensions_key", J({"errors": [E_FULL], "extensions": {"t": 1}, "data": DATA})),
    ] + lexical_classes() + falsy_member_classes()


def falsy_member_classes():
    """Derived family: every member that a truthiness test could mistake for 'absent' - error objects with empty / falsy members
    (still spec-shaped: an object carrying a string message), alone, before and after an ordinary error, with and without data;
    falsy data values with and without an errors member."""
    J = lambda o: json.dumps(o).encode()
    out = []
    variants = [("msg_empty", {"message": ""}), ("msg_zero", {"message": "0"}), ("msg_space", {"message": " "}),
                ("msg_empty_full", {"message": "", "locations": [{"line": 3, "column": 1}], "path": ["x"], "extensions": {"code": "MASKED"}}),
                ("empty_members", {"message": "m", "locations": [], "path": [], "extensions": {}}),
                ("null_members", {"message": "m", "locations": None, "path": None, "extensions": None}),
                ("path_zero", {"message": "m", "path": [0]}), ("msg_false_string", {"message": "false"}), ("msg_null_string", {"message": "null"})]
    for n, e in variants:
        out.append((f"errobj_{n}_alone", J({"errors": [e]})))
        out.append((f"errobj_{n}_with_data", J({"errors": [e], "data": DATA})))
        out.append((f"errobj_{n}_after_ordinary", J({"errors": [E_MIN, e], "data": DATA})))
        out.append((f"errobj_{n}_before_ordinary", J({"errors": [e, E_FULL]})))
        out.append((f"errobj_{n}_twice", J({"errors": [e, e], "data": None})))
    for n, d in (("empty_object", {}), ("empty_list", []), ("zero", 0), ("false", False), ("empty_string", "")):
        out.append((f"data_falsy_{n}", J({"data": d})))
        out.append((f"data_falsy_{n}_errors_empty", J({"data": d, "errors": []})))
        out.append((f"data_falsy_{n}_errors_null", J({"data": d, "errors": None})))
        out.append((f"data_falsy_{n}_errors_one", J({"data": d, "errors": [E_MIN]})))
    out.append(("errors_null_only", J({"errors": None})))
    out.append(("errors_null_data_null", J({"errors": None, "data": None})))
    return out


def lexical_classes():
    """Single-point lexical deviations from well-formed bodies: what a strict JSON parser (the reference uses json.loads) must refuse,
    and spellings it must accept.  Raw control characters inside string literals are the classic lenient-parser gap."""
    out = []
    for cname, ch in (("tab", b"\t"), ("lf", b"\n"), ("cr", b"\r"), ("nul", b"\x00"), ("us", b"\x1f")):
        out.append((f"raw_{cname}_in_data_string", b'{"data": {"a": "x' + ch + b'y"}}'))
        out.append((f"raw_{cname}_in_error_message", b'{"errors": [{"message": "x' + ch + b'y"}]}'))
        out.append((f"raw_{cname}_in_extra_key", b'{"data": {"a": 1}, "extensions": {"k": "x' + ch + b'y"}}'))
    out += [
        ("escaped_controls_in_string", b'{"data": {"a": "x\\t\\n\\u0000y"}}'),
        ("trailing_comma_object", b'{"data": {"a": 1},}'),
        ("trailing_comma_array", b'{"errors": [{"message": "m"},]}'),
        ("single_quotes", b"{'data': {'a': 1}}"),
        ("unquoted_key", b'{data: {"a": 1}}'),
        ("comment", b'{"data": {"a": 1} /* c */}'),
        ("trailing_garbage", b'{"data": {"a": 1}} x'),
        ("two_documents", b'{"data": {"a": 1}}{"data": {"a": 2}}'),
        ("leading_bom", b"\xef\xbb\xbf" + b'{"data": {"a": 1}}'),
        ("whitespace_padding", b' \n\t{"data": {"a": 1}}\r\n '),
        ("duplicate_data_key", b'{"data": {"a": 1}, "data": {"a": 2}}'),
        ("unicode_escapes", b'{"data": {"a": "\\u00e9\\ud83d\\ude00"}}'),
        ("truncated", b'{"data": {"a": 1}'),
        ("leading_zero_number", b'{"data": {"a": 01}}'),
    ]
    # long bodies with a multi-byte character around the 1 KiB / 4 KiB / 64 KiB marks (previews, buffers)
    for mark in (1024, 4096, 65536):
        for off in (-2, -1, 0):
            pad = "x" * (mark + off - len('{"data": {"a": 1}, "pad": "'))
            out.append((f"long_json_multibyte_at_{mark}{off:+d}", ('{"data": {"a": 1}, "pad": "' + pad + '\u00e9\u20ac\U0001F600"}').encode("utf-8")))
        out.append((f"long_nonjson_multibyte_at_{mark}", ("y" * (mark - 1) + "\u00e9\u20ac tail").encode("utf-8")))
        out.append((f"long_errors_multibyte_at_{mark}", json.dumps({"errors": [{"message": "m" * (mark - 30) + "\u00e9\u20ac"}]}, ensure_ascii=False).encode("utf-8")))
    return out


RESPONSE_HEADERS = [("none", None), ("json", {"Content-Type": "application/json"}), ("json_charset", {"Content-Type": "application/json; charset=utf-8"}),
                    ("graphql_response_json", {"Content-Type": "application/graphql-response+json"}), ("html", {"Content-Type": "text/html"})]
HEADER_STATUSES = [200, 204, 299, 300, 404, 500]


def reference(status, body):
    """The statement, as a decision function. Returns a tagged outcome."""
    if not 200 <= status <= 299:
        return ("http", status)
    try:
        j = json.loads(body)
    except ValueError:
        return ("invalid",)
    if not isinstance(j, dict) or ("data" not in j and "errors" not in j):
        return ("invalid",)
    if j.get("errors"):
        return ("multi", j["errors"], j.get("data"))
    return ("data", j.get("data"))


def observe(fn, exc_mod):
    """Run fn(), classify what happened."""
    try:
        v = fn()
        return ("data", v)
    except exc_mod.GraphQLClientHttpError as e:
        return ("http", e.status_code, e.response)
    except exc_mod.GraphQLClientInvalidResponseError as e:
        return ("invalid", e.response)
    except exc_mod.GraphQLClientGraphQLMultiError as e:
        errs = [{"message": x.message, "locations": x.locations, "path": x.path, "extensions": x.extensions,
                 "original": x.original} for x in e.errors]
        return ("multi", errs, e.data)
    except BaseException as e:  # noqa
        return ("other", type(e).__name__, str(e)[:200])


def compare(ref, obs, response):
    """Return None if obs matches ref else a short description."""
    if ref[0] != obs[0]:
        return f"expected {ref[0]} got {obs[:2]!r}"
    if ref[0] == "http":
        if obs[1] != ref[1]:
            return f"status {obs[1]} != {ref[1]}"
        if response is not None and obs[2] is not response:
            return "http error does not carry the response"
    elif ref[0] == "invalid":
        if response is not None and obs[1] is not response:
            return "invalid-response error does not carry the response"
    elif ref[0] == "multi":
        want = [{"message": e["message"], "locations": e.get("locations"), "path": e.get("path"),
                 "extensions": e.get("extensions"), "original": e} for e in ref[1]]
        if obs[1] != want:
            return f"errors differ: {obs[1]!r} != {want!r}"
        if obs[2] != ref[2]:
            return f"partial data {obs[2]!r} != {ref[2]!r}"
    elif ref[0] == "data":
        if obs[1] != ref[1] or type(obs[1]) is not type(ref[1]):
            return f"data {obs[1]!r} != {ref[1]!r}"
    return None


def status_class(s):
    return f"{s // 100}xx"


# ---------------------------------------------------------------- part A: get_data table
def part_a(rep, statuses):
    exc_mod = clients.dep_module("exceptions")
    bodies = body_classes()
    cells = 0
    outcomes = set()
    for kind in clients.BUNDLED:
        cls = clients.bundled_class(kind)
        _, _, is_async, is_ot = clients.BUNDLED[kind]
        for tv in (("none", "stub") if is_ot else ("none",)):
            c = clients.make_client(cls, is_async, lambda r: httpx.Response(500), **clients.tracer_kwargs(kind, tv))
            for hname, hdrs in RESPONSE_HEADERS:
                for status in (statuses if hdrs is None else HEADER_STATUSES):
                    for bname, body in bodies:
                        resp = httpx.Response(status, content=body, headers=hdrs)
                        ref = reference(status, body)
                        obs = observe(lambda: c.get_data(resp), exc_mod)
                        cells += 1
                        outcomes.add((status_class(status), bname, ref[0]))
                        why = compare(ref, obs, resp)
                        if why:
                            rep.violation("get_data_outcome", [f"client:{kind}", f"body:{bname}", f"status:{status_class(status)}"] + ([f"response_header:{hname}"] if hdrs else []),
                                          why, {"part": "get_data", "client": kind, "tracer": tv, "status": status, "response_headers": hdrs,
                                                "body_class": bname, "body": body.decode("latin1")})
    return cells, outcomes


# ---------------------------------------------------------------- part B: generated method
SCHEMA = "scalar Upload\ntype Query { a: Int! b(data: Int, query: Int, variables: Int, response: Int): Int! }\ntype Mutation { c(Data: Int, Query: Int): Int! up(f: Upload!, n: Int): Int! }\n"
QUERY = ("query GetA { a }\n"
         "query GetB($data: Int, $query: Int, $variables: Int, $response: Int) { a: b(data: $data, query: $query, variables: $variables, response: $response) }\n"
         "mutation SetC($Data: Int, $Query: Int) { a: c(Data: $Data, Query: $Query) }\n"
         "mutation UpFile($f: Upload!, $n: Int) { a: up(f: $f, n: $n) }\n")
METHODS = [("get_a", {}), ("get_b", {"data": 41, "query": 42, "variables": 43, "response": 44}), ("set_c", {"data": 51, "query": 52}),
           ("up_file", {"f": "<UPLOAD>", "n": 1})]   # the multipart request path
CONFIGS = [
    ("async", {"async_client": True, "opentelemetry_client": False}, "none"),
    ("sync", {"async_client": False, "opentelemetry_client": False}, "none"),
    ("async_ot", {"async_client": True, "opentelemetry_client": True}, "none"),
    ("async_ot", {"async_client": True, "opentelemetry_client": True}, "noop"),
    ("async_ot", {"async_client": True, "opentelemetry_client": True}, "stub"),
    ("sync_ot", {"async_client": False, "opentelemetry_client": True}, "none"),
    ("sync_ot", {"async_client": False, "opentelemetry_client": True}, "noop"),
    ("sync_ot", {"async_client": False, "opentelemetry_client": True}, "stub"),
]


def part_b_case(case):
    kind, options, tv, statuses = case
    import pydantic
    out = {"cells": 0, "violations": [], "outcomes": []}
    with genpkg.scratch() as d:
        pkg, pdir, _ = genpkg.generate(d, SCHEMA, QUERY, options)
        mod, mods = genpkg.import_package(d, pkg)
        exc_mod = mods["exceptions"]
        is_async = clients.BUNDLED[kind][2]
        some = statuses[2:5] + [x for x in (300, 404, 500) if x in statuses and x not in statuses[2:5]]
        plan = [(m, s_, None) for m in METHODS for s_ in (statuses if m[0] == "get_a" else some)]
        plan += [(METHODS[0], s_, h) for s_ in HEADER_STATUSES if s_ in statuses or len(statuses) > 1 for _, h in RESPONSE_HEADERS[1:]]
        for (mname, mkw), status, hdrs in plan:
            Model = {"get_a": mod.GetA, "get_b": mod.GetB, "set_c": mod.SetC, "up_file": mod.UpFile}[mname]
            if mname == "up_file":
                import io
                mkw = dict(mkw, f=mod.Upload(filename="f.txt", content=io.BytesIO(b"data"), content_type="text/plain"))
            for bname, body in body_classes():
                sent = {}

                def handler(request, status=status, body=body, hdrs=hdrs):
                    sent["n"] = sent.get("n", 0) + 1
                    return httpx.Response(status, content=body, headers=hdrs)

                c = clients.make_client(mod.Client, is_async, handler, **clients.tracer_kwargs(kind, tv))
                ref = reference(status, body)
                if ref[0] == "data":
                    try:
                        want = ("data", Model.model_validate(ref[1]))
                    except pydantic.ValidationError:
                        want = ("other", "ValidationError")
                else:
                    want = ref
                obs = observe(lambda: clients.call(is_async, getattr(c, mname), **mkw), exc_mod)
                out["cells"] += 1
                out["outcomes"].append((status_class(status), bname, want[0], mname))
                if want[0] == "other":
                    why = None if obs[:2] == want[:2] else f"expected pydantic ValidationError, got {obs[:2]!r}"
                elif want[0] == "data":
                    why = None if (obs[0] == "data" and type(obs[1]) is Model and obs[1] == want[1]) else f"expected model {want[1]!r}, got {obs[:2]!r}"
                else:
                    why = compare(want, obs, None)
                if sent.get("n") != 1:
                    why = (why or "") + f" requests sent: {sent.get('n')}"
                if why:
                    out["violations"].append((bname, status, f"{mname}: {why}" + (f" [response headers {hdrs}]" if hdrs else ""), body.decode("latin1")))
    return out


def main(tier):
    rep = Report("C12", tier, "exploration")
    genpkg.warm()
    statuses = list(range(100, 600))
    cells_a, outcomes = part_a(rep, statuses)
    b_statuses = [100, 199, 200, 201, 204, 226, 299, 300, 304, 400, 404, 499, 500, 503, 599] if tier == "quick" else list(range(100, 600, 1))
    cases = [(k, o, tv, b_statuses) for k, o, tv in CONFIGS]
    cells_b = 0
    for (kind, options, tv, _), (st, res) in zip(cases, pool.run_cases(part_b_case, cases, timeout=600)):
        if st != "ok":
            rep.violation("generated_method_harness", [f"client:{kind}"], f"{st}: {res}", {"part": "method", "client": kind, "tracer": tv})
            continue
        cells_b += res["cells"]
        outcomes.update(("method",) + tuple(o) for o in res["outcomes"])
        for bname, status, why, body in res["violations"]:
            rep.violation("generated_method_outcome", [f"client:{kind}", f"body:{bname}", f"status:{status_class(status)}"], why,
                          {"part": "method", "client": kind, "tracer": tv, "status": status, "body_class": bname, "body": body})
    rep.sample({"part": "get_data", "client": "async", "status": 200, "body": '{"errors": [], "data": {"a": 1}}', "expected": "data returned"})
    rep.sample({"part": "get_data", "client": "sync_ot", "status": 299, "body": '{"errors":[{"message":"boom"}]}', "expected": "GraphQLClientGraphQLMultiError"})
    rep.sample({"part": "method", "client": "async_ot/stub tracer", "status": 404, "body": "{}", "expected": "GraphQLClientHttpError(404)"})
    return rep.finish({
        "evaluations": cells_a + cells_b,
        "distinct_nontrivial": len(outcomes),
        "rule": "cell = (client, tracer variant, status code, body class); every status 100..599 x every body class x 4 bundled clients for get_data, "
                "generated method on every body class x listed statuses x 8 client/tracer configurations; distinct = (status class, body class, expected outcome kind)",
        "exhaustive": True,
        "get_data_cells": cells_a,
        "generated_method_cells": cells_b,
        "statuses_get_data": "100..599 (all)",
        "statuses_method": b_statuses if len(b_statuses) < 30 else "100..599 (all)",
        "body_classes": [b for b, _ in body_classes()],
    }, assumptions=["errors member, when present, is a list of objects with a message (as the statement restricts)",
                    "httpx.Response.is_success defines 2xx; httpx internals trusted"])


def replay(path):
    case = json.load(open(path))["case"]
    exc_mod = clients.dep_module("exceptions")
    body = case["body"].encode("latin1")
    if case["part"] == "get_data":
        kind = case["client"]
        cls = clients.bundled_class(kind)
        c = clients.make_client(cls, clients.BUNDLED[kind][2], lambda r: httpx.Response(500), **clients.tracer_kwargs(kind, case["tracer"]))
        resp = httpx.Response(case["status"], content=body, headers=case.get("response_headers"))
        ref = reference(case["status"], body)
        obs = observe(lambda: c.get_data(resp), exc_mod)
        print("reference:", ref[:2], "observed:", obs[:2], "->", compare(ref, obs, resp))
        return 1 if compare(ref, obs, resp) else 0
    genpkg.warm()
    opts = next(o for k, o, tv in CONFIGS if k == case["client"])
    st, res = pool.run_forked(part_b_case, (case["client"], opts, case["tracer"], [case["status"]]))
    print(st, [v for v in (res or {}).get("violations", []) if v[0] == case["body_class"]])
    return 1 if st != "ok" or any(v[0] == case["body_class"] for v in res["violations"]) else 0
