"""C16 — the graphqlschema strategy reproduces the schema.

Enumerated: a catalogue of schema features taken singly and in pairs x variable names {default, custom, soft keyword}
x target formats {.py, .graphql, .gql} x source {local SDL, introspection served in-process by graphql-core}.
Oracle: the generated .py compiles, executes in an empty namespace, binds the configured names; the schema obtained
equals the source under print_schema AND under an independent structural comparer (so a difference print_schema would
normalise away is still seen); the .graphql/.gql file parses back to an equal schema.
"""
from __future__ import annotations

import itertools
import json
import os

from graphql import (
    build_schema, graphql_sync, is_enum_type, is_input_object_type, is_interface_type, is_object_type, is_scalar_type, is_union_type,
    print_schema, specified_directives,
)

from mc import corpus, genpkg, pool
from mc.report import Report, seed

BASE = "type Query { ping: Int }\n"

COMPONENTS = {
    "scalar_specified_by": '"""A date"""\nscalar Date @specifiedBy(url: "https://example.com/date")\nextend type Query { d: Date }\n',
    "enum_described_deprecated": '"""Colors"""\nenum Color {\n  "red one"\n  RED\n  GREEN @deprecated(reason: "use RED")\n  BLUE @deprecated\n}\nextend type Query { c: Color }\n',
    "interface_chain": "interface Node { id: ID! }\ninterface Named implements Node { id: ID! name: String }\ntype Person implements Node & Named { id: ID! name: String }\nextend type Query { n: Node p: Person }\n",
    "union": "type A1 { a: Int }\ntype B1 { b: Int }\nunion AB = A1 | B1\nextend type Query { ab: AB abs: [AB!]! }\n",
    "input_defaults_scalars": 'input Sc { i: Int = 0 neg: Int = -1 big: Int = 2147483647 f: Float = 0.5 huge: Float = 1e308 tiny: Float = 1e-7 negf: Float = -2.5 s: String = "x" e: String = "" b: Boolean = false t: Boolean = true n: Int = null id: ID = "abc" req: Int! = 7 }\nextend type Query { sc(x: Sc): Int }\n',
    "input_defaults_strings": 'input St { q: String = "it\'s \\"quoted\\"" nl: String = "line\\nbreak" bs: String = "back\\\\slash" uni: String = "caf\\u00e9 \U0001F600" blk: String = """block\n  text""" }\nextend type Query { st(x: St): Int }\n',
    "input_defaults_composite": 'enum K { A B }\ninput In1 { v: Int k: K = B }\ninput Co { l: [Int] = [1, 2] le: [Int] = [] ln: [Int] = [1, null] ll: [[Int]] = [[1], []] ek: K = A lk: [K!] = [A, B] o: In1 = {v: 1, k: A} oe: In1 = {} on: In1 = null lo: [In1] = [{v: 1}, {k: B}] deep: Deep = {inner: {v: 3, k: B}, items: [{v: 1}]} }\ninput Deep { inner: In1 items: [In1!] }\nextend type Query { co(x: Co): Int }\n',
    "field_args": 'enum Dir { ASC DESC }\nextend type Query {\n  """list things"""\n  things(\n    "how many"\n    first: Int = 10\n    after: String\n    dir: Dir = ASC\n    ids: [ID!] = ["a", "b"]\n    old: Int @deprecated(reason: "no")\n  ): [String!]!\n}\n',
    "descriptions_multiline": '"""\nMulti line\n  indented "quotes" and \\\\ backslash\n"""\ntype Doc {\n  """field doc\nsecond line"""\n  f(\n    """arg doc"""\n    a: Int\n  ): Int\n}\nextend type Query { doc: Doc }\n',
    "deprecations": 'type Dep { old: Int @deprecated(reason: "gone") older: Int @deprecated fine: Int }\ninput DepIn { old: Int @deprecated(reason: "x") fine: Int }\nextend type Query { dep(i: DepIn): Dep }\n',
    "directive_definitions": '"""marks"""\ndirective @mark(level: Int = 1, tags: [String!] = ["a"]) repeatable on FIELD_DEFINITION | OBJECT | ARGUMENT_DEFINITION | ENUM_VALUE | INPUT_FIELD_DEFINITION | QUERY | FIELD | SCHEMA | SCALAR | INTERFACE | UNION | ENUM | INPUT_OBJECT | MUTATION | SUBSCRIPTION | FRAGMENT_DEFINITION | FRAGMENT_SPREAD | INLINE_FRAGMENT | VARIABLE_DEFINITION\ndirective @once on FIELD\n',
    "custom_roots": "schema { query: RootQ mutation: RootM subscription: RootS }\ntype RootQ { a: Int }\ntype RootM { m(x: Int!): Int }\ntype RootS { s: Int! }\n",
    "schema_description": '"""The schema\'s description"""\nschema { query: Query }\n',
    "mutation_only_extra": "type Mutation { set(v: Int): Int }\n",
    "wrapper_shapes": "type Wr {\n" + "\n".join(f"  f{i}: {s.replace('T', 'Int')}" for i, s in enumerate(corpus.SHAPES)) + "\n}\nextend type Query { wr(" + ", ".join(f"a{i}: {s.replace('T', 'Int')}" for i, s in enumerate(corpus.SHAPES[:6])) + "): Wr }\n",
    "unicode_description": '"""Zażółć gęślą jaźń ☃"""\ntype Uni { x: Int }\nextend type Query { uni: Uni }\n',
    "extend_type": "type Ext { a: Int }\nextend type Ext { b: String }\nextend type Query { ext: Ext }\n",
    "underscore_type_names": "scalar _Any\ntype _Service { sdl: String }\ninterface _Base { id: ID }\ntype _Impl implements _Base { id: ID }\nunion _Entity = _Service | _Impl\nenum _Mode { A }\ninput _In { a: Int }\nextend type Query { _service: _Service! _entities(representations: [_Any!]!, mode: _Mode, i: _In): [_Entity]! }\n",
    "same_arg_signature_different_docs": 'type Sig {\n  one(\n    "first doc"\n    n: Int = 1\n    old: String @deprecated(reason: "one")\n  ): Int\n  two(\n    "second doc"\n    n: Int = 1\n    old: String @deprecated(reason: "two")\n  ): Int\n  three(n: Int = 1, old: String): Int\n}\nextend type Query { sig: Sig }\n',
    "keyword_names": "type class { def: Int import: String }\nenum None { True False }\nextend type Query { class: class none: None }\n",
}
NO_BASE = {"custom_roots"}


def build_sdl(names):
    base = "" if any(n in NO_BASE for n in names) else BASE
    if "schema_description" in names and any(n in NO_BASE for n in names):
        return None
    return base + "\n".join(COMPONENTS[n] for n in names)


# ------------------------------------------------------------------ structural comparer
def tstr(t):
    return str(t)


def compare_args(pfx, a, b, out):
    if list(a) != list(b):
        out.append(f"{pfx}: argument names/order {list(a)} != {list(b)}")
    for n in set(a) & set(b):
        x, y = a[n], b[n]
        if tstr(x.type) != tstr(y.type):
            out.append(f"{pfx}.{n}: type {x.type} != {y.type}")
        if not same_default(x.default_value, y.default_value):
            out.append(f"{pfx}.{n}: default {x.default_value!r} != {y.default_value!r}")
        if x.description != y.description:
            out.append(f"{pfx}.{n}: description {x.description!r} != {y.description!r}")
        if x.deprecation_reason != y.deprecation_reason:
            out.append(f"{pfx}.{n}: deprecation {x.deprecation_reason!r} != {y.deprecation_reason!r}")


def same_default(x, y):
    from graphql import Undefined
    if x is Undefined or y is Undefined:
        return x is y
    return x == y and type(x) is type(y) if not isinstance(x, (dict, list)) else json.dumps(x, sort_keys=True, default=str) == json.dumps(y, sort_keys=True, default=str)


def compare_schemas(src, got):
    out = []
    sn = [n for n in src.type_map if not n.startswith("__")]
    gn = [n for n in got.type_map if not n.startswith("__")]
    if set(sn) != set(gn):
        out.append(f"type names differ: only in source {sorted(set(sn) - set(gn))}, only generated {sorted(set(gn) - set(sn))}")
    for rt in ("query_type", "mutation_type", "subscription_type"):
        a, b = getattr(src, rt), getattr(got, rt)
        if (a.name if a else None) != (b.name if b else None):
            out.append(f"{rt}: {a} != {b}")
    if src.description != got.description:
        out.append(f"schema description {src.description!r} != {got.description!r}")
    for n in set(sn) & set(gn):
        a, b = src.type_map[n], got.type_map[n]
        if type(a) is not type(b):
            out.append(f"{n}: kind {type(a).__name__} != {type(b).__name__}")
            continue
        if a.description != b.description:
            out.append(f"{n}: description {a.description!r} != {b.description!r}")
        if is_object_type(a) or is_interface_type(a):
            if [i.name for i in a.interfaces] != [i.name for i in b.interfaces]:
                out.append(f"{n}: interfaces {[i.name for i in a.interfaces]} != {[i.name for i in b.interfaces]}")
            if list(a.fields) != list(b.fields):
                out.append(f"{n}: field names/order {list(a.fields)} != {list(b.fields)}")
            for f in set(a.fields) & set(b.fields):
                x, y = a.fields[f], b.fields[f]
                if tstr(x.type) != tstr(y.type):
                    out.append(f"{n}.{f}: type {x.type} != {y.type}")
                if x.description != y.description:
                    out.append(f"{n}.{f}: description {x.description!r} != {y.description!r}")
                if x.deprecation_reason != y.deprecation_reason:
                    out.append(f"{n}.{f}: deprecation {x.deprecation_reason!r} != {y.deprecation_reason!r}")
                compare_args(f"{n}.{f}", x.args, y.args, out)
        elif is_union_type(a):
            if [t.name for t in a.types] != [t.name for t in b.types]:
                out.append(f"{n}: members {[t.name for t in a.types]} != {[t.name for t in b.types]}")
        elif is_enum_type(a):
            if list(a.values) != list(b.values):
                out.append(f"{n}: values {list(a.values)} != {list(b.values)}")
            for v in set(a.values) & set(b.values):
                x, y = a.values[v], b.values[v]
                if (x.value, x.description, x.deprecation_reason) != (y.value, y.description, y.deprecation_reason):
                    out.append(f"{n}.{v}: {(x.value, x.description, x.deprecation_reason)} != {(y.value, y.description, y.deprecation_reason)}")
        elif is_input_object_type(a):
            compare_args(n, a.fields, b.fields, out)
        elif is_scalar_type(a):
            if a.specified_by_url != b.specified_by_url:
                out.append(f"{n}: specifiedBy {a.specified_by_url!r} != {b.specified_by_url!r}")
    sd = {d.name: d for d in src.directives}
    gd = {d.name: d for d in got.directives}
    if set(sd) != set(gd):
        out.append(f"directives differ: only source {sorted(set(sd) - set(gd))}, only generated {sorted(set(gd) - set(sd))}")
    for n in set(sd) & set(gd):
        a, b = sd[n], gd[n]
        if list(a.locations) != list(b.locations):
            out.append(f"@{n}: locations {[l.name for l in a.locations]} != {[l.name for l in b.locations]}")
        if a.is_repeatable != b.is_repeatable:
            out.append(f"@{n}: repeatable {a.is_repeatable} != {b.is_repeatable}")
        if a.description != b.description:
            out.append(f"@{n}: description {a.description!r} != {b.description!r}")
        compare_args(f"@{n}", a.args, b.args, out)
    return out


def evaluate(case):
    import contextlib
    import io
    import ariadne_codegen.schema as acs
    from ariadne_codegen import main as acm
    sdl, fmt, vnames, source = case["sdl"], case["format"], case["vars"], case["source"]
    src = build_schema(sdl)
    out = {"status": "ok", "problems": []}
    P = out["problems"]
    with genpkg.scratch() as d:
        target = os.path.join(d, "out_schema." + case.get("ext", fmt))
        if case.get("existing") == "longer_text":
            open(target, "w").write("# left over from an earlier, much larger schema\n" + "x = 1\n" * 4000)
        elif case.get("existing") == "previous_bigger_generation":
            with contextlib.redirect_stdout(io.StringIO()):
                big = sdl + "\n".join(f"type Extra{i} {{ f{i}: Int }}" for i in range(60)) + "\n"
                bp = os.path.join(d, "big.graphql")
                open(bp, "w", encoding="utf-8").write(big)
                acm.graphql_schema({"tool": {"ariadne-codegen": {"schema_path": bp, "target_file_path": target}}})
        sec = {"target_file_path": target}
        if vnames:
            sec["schema_variable_name"], sec["type_map_variable_name"] = vnames
        if source in ("sdl", "both"):
            sp = os.path.join(d, "schema.graphql")
            open(sp, "w", encoding="utf-8").write(sdl)
            sec["schema_path"] = sp
        if source == "both":
            # the documentation gives schema_path priority: the remote endpoint (serving an OLDER schema) must not be consulted at all
            sec["remote_schema_url"] = "http://verif.invalid/graphql"
            stale = build_schema("type Query { stale: Int }")
            asked = {"n": 0}

            def stale_post(url, json=None, headers=None, verify=True, **kw):
                asked["n"] += 1
                res = graphql_sync(stale, json["query"])

                class R:
                    is_success = True
                    status_code = 200

                    def json(self_):
                        return {"data": res.data}
                return R()
            acs.httpx.post = stale_post
        if source == "introspection":
            sec["remote_schema_url"] = "http://verif.invalid/graphql"

            class Resp:
                is_success = True
                status_code = 200

                def __init__(self, payload):
                    self._p = payload

                def json(self):
                    return self._p

            def fake_post(url, json=None, headers=None, verify=True, **kw):
                res = graphql_sync(src, json["query"])
                payload = {"data": res.data}
                if res.errors:
                    payload["errors"] = [{"message": e.message} for e in res.errors]
                return Resp(payload)
            acs.httpx.post = fake_post
        if case.get("process_locale"):
            # the real command in its own process under a non-UTF-8 locale: what it writes must not depend on the locale's preferred encoding
            import subprocess
            import toml
            open(os.path.join(d, "pyproject.toml"), "w", encoding="utf-8").write(toml.dumps({"tool": {"ariadne-codegen": sec}}))
            env = dict(os.environ, LC_ALL=case["process_locale"], LANG=case["process_locale"], PYTHONUTF8="0", PYTHONCOERCECLOCALE="0", PYTHONIOENCODING="utf-8")
            r = subprocess.run(["/venv/bin/python", "-m", "ariadne_codegen", "graphqlschema"], cwd=d, env=env, capture_output=True, timeout=300)
            if r.returncode:
                out.update(status="gen_error", error=r.stderr.decode("utf-8", "replace")[-400:], error_type="subprocess_exit_" + str(r.returncode))
                return out
        else:
            try:
                with contextlib.redirect_stdout(io.StringIO()):
                    acm.graphql_schema({"tool": {"ariadne-codegen": sec}})
            except BaseException as e:  # noqa
                out.update(status="gen_error", error=f"{type(e).__name__}: {str(e)[:400]}", error_type=type(e).__name__)
                return out
        try:
            text = open(target, encoding="utf-8").read()
        except UnicodeDecodeError as e:
            P.append(("generated_file_not_utf8", str(e)[:200]))
            return out
        if source == "both" and asked["n"]:
            P.append(("remote_consulted_although_schema_path_given", f"{asked['n']} introspection request(s) sent"))
        if fmt == "py":
            try:
                code = compile(text, target, "exec")
            except SyntaxError as e:
                P.append(("generated_module_syntax_error", str(e)))
                return out
            ns = {}
            try:
                exec(code, ns)  # noqa: S102
            except BaseException as e:  # noqa
                P.append(("generated_module_fails_to_execute", f"{type(e).__name__}: {str(e)[:300]}"))
                return out
            sv, tv = vnames or ("schema", "type_map")
            if sv not in ns or tv not in ns:
                P.append(("variable_names_not_bound", f"expected {sv}, {tv}; module binds {sorted(k for k in ns if not k.startswith('__') and k[0].islower())[:10]}"))
                return out
            got = ns[sv]
        else:
            try:
                got = build_schema(text)
            except BaseException as e:  # noqa
                P.append(("generated_sdl_does_not_parse", f"{type(e).__name__}: {str(e)[:300]}"))
                return out
        try:
            a, b = print_schema(src), print_schema(got)
        except BaseException as e:  # noqa
            P.append(("print_schema_fails", f"{type(e).__name__}: {str(e)[:300]}"))
            a = b = None
        if a != b:
            import difflib
            diff = [l for l in difflib.unified_diff(a.splitlines(), b.splitlines(), lineterm="", n=0) if not l.startswith(("---", "+++", "@@"))]
            P.append(("print_schema_differs", "; ".join(diff[:8])))
        per = {}
        for msg in compare_schemas(src, got):
            kind = "description" if "description" in msg else "deprecation" if "deprecation" in msg else "specified_by" if "specifiedBy" in msg else "repeatable" if "repeatable" in msg else "default" if "default" in msg else "other"
            per[kind] = per.get(kind, 0) + 1
            if per[kind] <= 3:
                P.append((f"structure_differs:{kind}", msg))
    return out


DESCRIPTION_TEXTS = {
    "one_line": "plain text",
    "leading_space": " starts with a space",
    "trailing_space": "ends with a space ",
    "tab_inside": "col1\tcol2",
    "leading_tab": "\tindented by a tab",
    "two_lines": "first\nsecond",
    "hanging_indent": "first\n    second indented\n    third indented",
    "common_indent_all_lines": "  a\n  b\n  c",
    "blank_first_line": "\nstarts after a blank line",
    "blank_last_line": "ends before a blank line\n",
    "blank_middle": "para one\n\npara two",
    "quotes_and_backslash": "say \"hi\" and \\ and \"\"\" triple",
    "unicode": "Zażółć ☃",
    "crlf": "a\r\nb",
    "spaces_only_line": "a\n   \nb",
    # LONG texts (beyond any line-length / wrapping threshold: 72, 79, 88, 100, 120 columns) with and without line breaks, tabs, runs of spaces
    "long_single_line": "word " * 40 + "end",
    "long_with_newline": "The first line of this description is deliberately longer than eighty-eight characters, then breaks\nand continues on a second line that is also quite long, so that any re-wrapping of the text would show",
    "long_with_tab_and_double_spaces": "column one\tcolumn two\tcolumn three  (two spaces before this)   three spaces, and the line keeps going well beyond one hundred and twenty characters in total",
    "long_word_without_spaces": "x" * 150,
    "long_many_short_lines": "\n".join(f"line {i}" for i in range(30)),
    "long_trailing_spaces_per_line": "a line ending in two spaces  \n" * 6 + "last",
}


def description_cases():
    """Every description text x every place a description can be written.  The text is written as an ordinary (escaped) string literal, so
    the source schema holds it byte for byte."""
    out = []
    for tn, text in DESCRIPTION_TEXTS.items():
        lit = json.dumps(text, ensure_ascii=False)
        places = {
            "object": f"{lit}\ntype T {{ f: Int }}\ntype Query {{ t: T }}\n",
            "field": f"type Query {{ {lit}\n f: Int }}\n",
            "argument": f"type Query {{ f({lit}\n a: Int): Int }}\n",
            "input_field": f"input I {{ {lit}\n a: Int }}\ntype Query {{ f(i: I): Int }}\n",
            "input_object": f"{lit}\ninput I {{ a: Int }}\ntype Query {{ f(i: I): Int }}\n",
            "enum": f"{lit}\nenum E {{ A }}\ntype Query {{ e: E }}\n",
            "enum_value": f"enum E {{ {lit}\n A B }}\ntype Query {{ e: E }}\n",
            "interface": f"{lit}\ninterface N {{ id: ID }}\ntype T implements N {{ id: ID }}\ntype Query {{ n: N t: T }}\n",
            "union": f"type A {{ a: Int }}\n{lit}\nunion U = A\ntype Query {{ u: U }}\n",
            "scalar": f"{lit}\nscalar S\ntype Query {{ s: S }}\n",
            "directive": f"{lit}\ndirective @d(a: Int) on FIELD\ntype Query {{ f: Int }}\n",
            "directive_argument": f"directive @d({lit}\n a: Int) on FIELD\ntype Query {{ f: Int }}\n",
            "schema": f"{lit}\nschema {{ query: Query }}\ntype Query {{ f: Int }}\n",
        }
        for pn, sdl in places.items():
            out.append((f"desc:{tn}@{pn}", sdl, {f"description_text:{tn}", f"description_place:{pn}"}))
    return out


def root_cases():
    """Every subset of root operation types (query always), with default and custom type names, with and without an explicit schema block."""
    out = []
    for custom in (False, True):
        for m in (False, True):
            for sub in (False, True):
                q, mu, su = ("RootQ", "RootM", "RootS") if custom else ("Query", "Mutation", "Subscription")
                parts = [f"type {q} {{ a: Int }}"] + ([f"type {mu} {{ m(x: Int): Int }}"] if m else []) + ([f"type {su} {{ s: Int! }}"] if sub else [])
                block = "schema { query: " + q + (f" mutation: {mu}" if m else "") + (f" subscription: {su}" if sub else "") + " }\n"
                for explicit in ((True,) if custom else (False, True)):
                    sdl = (block if explicit else "") + "\n".join(parts) + "\n"
                    out.append((f"roots:{'custom' if custom else 'default'}:{'Q' + ('M' if m else '') + ('S' if sub else '')}:{'block' if explicit else 'implicit'}", sdl,
                                {"root_types", f"roots:{'Q' + ('M' if m else '') + ('S' if sub else '')}"}))
    # a type merely NAMED like a root but not used as one
    out.append(("roots:decoy_mutation_type", "schema { query: Q }\ntype Q { a: Int }\ntype Mutation { notARoot: Int }\ntype Subscription { alsoNot: Int }\n", {"root_types", "roots:decoys"}))
    return out


def hierarchy_cases():
    """Interface hierarchies: every order in which an interface / an object can list the interfaces it implements."""
    out = []
    base = "interface I1 { id: ID }\ninterface I2 implements I1 { id: ID a: Int }\ninterface J { j: Int }\n"
    for p3 in itertools.permutations(("I1", "I2")):
        for n in (2, 3, 4):
            for pt in itertools.permutations(("I1", "I2", "I3", "J"), n):
                if "I3" in pt and not {"I1", "I2"} <= set(pt) or "I2" in pt and "I1" not in pt:
                    continue
                fields = "id: ID a: Int b: Int" + (" j: Int" if "J" in pt else "")
                sdl = base + f"interface I3 implements {' & '.join(p3)} {{ id: ID a: Int b: Int }}\ntype T implements {' & '.join(pt)} {{ {fields} }}\ntype Query {{ t: T i: I3 j: J }}\n"
                out.append((f"impl:{'&'.join(p3)}/{'&'.join(pt)}", sdl, {"implements_order", f"interface_lists:{'&'.join(p3)}", f"object_lists:{'&'.join(pt)}"}))
    return out


def build_cases(tier):
    cases = []
    for label, sdl, tags in description_cases() + hierarchy_cases() + root_cases():
        build_schema(sdl)
        cases.append(dict(sdl=sdl, components=(label,), format="py", vars=None, source="sdl", tags=tags))
        if tier != "quick" or label.endswith(("@field", "@object")) or label.startswith("impl:"):
            cases.append(dict(sdl=sdl, components=(label,), format="graphql", vars=None, source="sdl", tags=tags))
    names = list(COMPONENTS)
    combos = [(n,) for n in names] + list(itertools.combinations(names, 2))
    for combo in combos:
        sdl = build_sdl(combo)
        if sdl is None:
            continue
        try:
            build_schema(sdl)
        except Exception:  # noqa
            continue
        single = len(combo) == 1
        fmts = ("py", "graphql", "gql") if single else (("py", "graphql") if tier != "quick" else ("py",))
        for fmt in fmts:
            cases.append(dict(sdl=sdl, components=combo, format=fmt, vars=None, source="sdl"))
        if single:
            for vn in (("my_schema", "my_types"), ("match", "type")):
                cases.append(dict(sdl=sdl, components=combo, format="py", vars=vn, source="sdl"))
            for fmt in ("py", "graphql"):
                cases.append(dict(sdl=sdl, components=combo, format=fmt, vars=None, source="introspection"))
    # non-ASCII text (descriptions, string defaults, deprecation reasons) generated by the real command under non-UTF-8 process locales
    uni_sdl = ('"""Zażółć gęślą jaźń ☃ \U0001F600"""\ntype Query {\n  "opis pola: ą"\n  f(a: String = "domyślna wartość ☃"): Int @deprecated(reason: "przestarzałe ✓")\n}\n')
    for loc in ("C", "POSIX"):
        for fmt in ("py", "graphql"):
            cases.append(dict(sdl=uni_sdl, components=("non_ascii_text",), format=fmt, vars=None, source="sdl", process_locale=loc, tags={f"process_locale:{loc}", "non_ascii_text"}))
    cases.append(dict(sdl=uni_sdl, components=("non_ascii_text",), format="py", vars=None, source="sdl", tags={"non_ascii_text"}))
    # spelling of the target file extension (the settings accept any case) and both schema sources configured at once
    for comp in ("interface_chain", "input_defaults_composite", "directive_definitions"):
        sdl = build_sdl((comp,))
        for fmt, ext in (("py", "PY"), ("py", "Py"), ("graphql", "GRAPHQL"), ("gql", "Gql"), ("graphql", "GraphQL")):
            cases.append(dict(sdl=sdl, components=(comp,), format=fmt, ext=ext, vars=None, source="sdl", tags={f"target_extension:{ext}"}))
        for fmt in ("py", "graphql"):
            cases.append(dict(sdl=sdl, components=(comp,), format=fmt, vars=None, source="both", tags={"both_sources"}))
    # regeneration onto an existing, longer target file
    for comp in ("interface_chain", "enum_described_deprecated"):
        for fmt in ("py", "graphql"):
            for ex in ("longer_text", "previous_bigger_generation"):
                cases.append(dict(sdl=build_sdl((comp,)), components=(comp,), format=fmt, vars=None, source="sdl", existing=ex, tags={f"existing_target:{ex}"}))
    all_sdl = build_sdl([n for n in names if n not in NO_BASE and n != "schema_description"])
    cases.append(dict(sdl=all_sdl, components=("ALL",), format="py", vars=None, source="sdl"))
    cases.append(dict(sdl=all_sdl, components=("ALL",), format="graphql", vars=None, source="sdl"))
    cases.append(dict(sdl=corpus.SCHEMA_K, components=("K",), format="py", vars=None, source="sdl"))
    return cases


def main(tier):
    rep = Report("C16", tier, "translation_validation")
    genpkg.warm()
    cases = build_cases(tier)
    results = pool.run_cases(evaluate, cases, timeout=300, progress=500)
    disagreements = 0
    distinct = set()
    for case, (st, r) in zip(cases, results):
        feats = set(case.get("tags") or ()) | {f"component:{c}" for c in case["components"]} | {f"format:{case['format']}", f"source:{case['source']}", "vars:" + ("default" if not case["vars"] else case["vars"][0])}
        desc = {"components": list(case["components"]), "format": case["format"], "variables": case["vars"], "source": case["source"], "sdl": case["sdl"][:3000], "ext": case.get("ext"), "existing": case.get("existing")}
        distinct.add(case["sdl"])
        if rep.triage:
            rep.seen(feats)
        if st != "ok":
            rep.violation("harness_" + st, feats, str(r)[:500], desc)
            continue
        if r["status"] != "ok":
            disagreements += 1
            rep.violation(f'{r["status"]}:{r.get("error_type")}', feats, r["error"], desc)
            continue
        for clause, detail in r["problems"]:
            disagreements += 1
            rep.violation(clause, feats, detail, desc)
        if len(rep.samples) < 3 and len(case["components"]) == 2:
            rep.sample({"components": list(case["components"]), "format": case["format"], "source": case["source"], "sdl_excerpt": case["sdl"][:300]})
    return rep.finish({
        "programs": len(cases), "disagreements_checked": disagreements,
        "evaluations": len(cases), "distinct_nontrivial": len(distinct),
        "rule": "program = one (schema built from feature components singly / in pairs / all, target format, variable names, source) translated by the graphqlschema strategy and compared with the source schema "
                "by print_schema and by an independent structural comparer",
        "exhaustive": True, "components": sorted(COMPONENTS),
    }, assumptions=["graphql-core build_schema / print_schema / introspection execution are the reference", "for the introspected source the reference is the schema the server has"])


def replay(path):
    rec = json.load(open(path))
    c = rec["case"]
    genpkg.warm()
    case = dict(sdl=next(x["sdl"] for x in build_cases("thorough") if list(x["components"]) == c["components"]), components=tuple(c["components"]), format=c["format"],
                vars=tuple(c["variables"]) if c["variables"] else None, source=c["source"])
    if c.get("ext"):
        case["ext"] = c["ext"]
    if c.get("existing"):
        case["existing"] = c["existing"]
    st, r = pool.run_forked(evaluate, case)
    print(st, r)
    return 1 if st != "ok" or r["status"] != "ok" or r["problems"] else 0
