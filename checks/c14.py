"""C14 — the custom operation builder emits valid, faithful, history-free documents.

Enumerated: builder expression trees from a grammar over a schema with camelCase fields/arguments, list / non-null /
enum / input / custom-scalar arguments, interface and union results: every root method x argument menus x combinations of
<= 2 sub-field items per level (attribute fields, method fields with arguments, aliases, .on() fragments), depth <= 2
(quick) / 3 (thorough), one and two top-level fields, sync and async clients.  Every expression has a hand-written
equivalent GraphQL text: the sent document must validate, declare each variable with the exact type of the argument it
feeds, and make the reference executor produce the same response shape and the same recorded resolver arguments as the
equivalent text.  Histories: explicit-state BFS over sequences of builder expressions that touch shared class-level
field objects; the document built by E after history H must equal the one built in the initial state.
"""
from __future__ import annotations

import itertools
import json
import shutil

import httpx
from graphql import TypeInfo, TypeInfoVisitor, Visitor, build_schema, execute_sync, parse, print_ast, specified_rules, validate, visit

from mc import clients, genpkg, pool
from mc.report import Report, seed

SCHEMA = '''
enum Kind { A B }
scalar Blob
input Filter { name: String kindOf: Kind nested: Filter }
interface Node { id: ID! }
type User implements Node { id: ID! userName: String bestFriend(withKind: Kind): User posts(first: Int = 3, tags: [String!]): [Post!]! feed(kind: Kind!, first: Int): [SearchResult!]! related(first: Int): [Node!] }
type Post implements Node { id: ID! title(upper: Boolean = false): String author: User }
type Team implements Node { id: ID! posts(first: Int!, pinned: Boolean): [Post!]! lead(kind: Kind, rank: Int!): User }
union SearchResult = User | Post
type Query {
  me: User
  userById(userId: ID!): User
  users(ids: [ID!]!, filter: Filter, blob: Blob): [User!]!
  search(text: String!, kinds: [Kind]): [SearchResult!]!
  node(id: ID!): Node
  count: Int!
  team: Team
  find(kind: Kind, first: Int!, after: String): [User!]!
  top(limit: Int! = 5, kind: Kind! = A, offset: Int = 0): [User!]!
}
type Mutation { renameUser(userId: ID!, newName: String!): User updatePost(title: String, published: Boolean, id: ID!): Post }
'''
_schema = None


def get_schema():
    global _schema
    if _schema is None:
        _schema = build_schema(SCHEMA)
    return _schema


# (python expression, equivalent GraphQL selection, tags)
USER_ITEMS = [
    ("UserFields.id", "id", set()),
    ("UserFields.user_name", "userName", {"camel_attr_field"}),
    ("UserFields.id.alias('uid')", "uid: id", {"alias", "alias_on_class_attribute"}),
    ("UserFields.best_friend().fields(UserFields.id)", "bestFriend { id }", {"camel_method_field"}),
    ("UserFields.best_friend(with_kind=Kind.A).fields(UserFields.user_name)", "bestFriend(withKind: A) { userName }", {"camel_method_field", "enum_arg", "nested_arg"}),
    ("UserFields.posts(first=2).fields(PostFields.id)", "posts(first: 2) { id }", {"nested_arg"}),
    ("UserFields.posts(tags=['a', 'b']).fields(PostFields.title(upper=True))", 'posts(tags: ["a", "b"]) { title(upper: true) }', {"nested_arg", "list_arg", "depth2_arg"}),
    ("UserFields.posts().fields(PostFields.id, PostFields.author().fields(UserFields.id))", "posts { id author { id } }", {"depth2"}),
    ("UserFields.posts().alias('p2').fields(PostFields.id)", "p2: posts { id }", {"alias"}),
    ("UserFields.posts().alias('p3').fields(PostFields.title(upper=True))", "p3: posts { title(upper: true) }", {"alias", "depth2_arg"}),
    ("UserFields.posts(first=1).alias('pa').fields(PostFields.id)", "pa: posts(first: 1) { id }", {"alias", "nested_arg", "repeated_argument_name"}),
    ("UserFields.posts(first=2).alias('pb').fields(PostFields.id)", "pb: posts(first: 2) { id }", {"alias", "nested_arg", "repeated_argument_name"}),
    # nested fields that take arguments and return a union / an interface
    ("UserFields.feed(kind=Kind.A).on('Post', PostFields.id)", "feed(kind: A) { ... on Post { id } }", {"nested_arg", "nested_union_with_args", "enum_arg"}),
    ("UserFields.feed(kind=Kind.B, first=2).on('User', UserFields.id).on('Post', PostFields.title())", "feed(kind: B, first: 2) { ... on User { id } ... on Post { title } }", {"nested_arg", "nested_union_with_args", "enum_arg"}),
    ("UserFields.related(first=1).fields(NodeInterface.id)", "related(first: 1) { id }", {"nested_arg", "nested_interface_with_args"}),
    ("UserFields.related().fields(NodeInterface.id).on('Post', PostFields.title())", "related { id ... on Post { title } }", {"nested_interface_with_args"}),
]
POST_ITEMS = [
    ("PostFields.id", "id", set()),
    ("PostFields.title()", "title", set()),
    ("PostFields.title(upper=True)", "title(upper: true)", {"nested_arg"}),
    ("PostFields.author().fields(UserFields.id)", "author { id }", set()),
]
TEAM_ITEMS = [
    ("TeamFields.id", "id", set()),
    ("TeamFields.posts(first=3).fields(PostFields.id)", "posts(first: 3) { id }", {"nested_arg", "same_field_name_on_two_types"}),
    ("TeamFields.posts(first=1, pinned=True).alias('pinned').fields(PostFields.id)", "pinned: posts(first: 1, pinned: true) { id }", {"nested_arg", "alias", "same_field_name_on_two_types"}),
    ("TeamFields.lead(rank=2).fields(UserFields.id)", "lead(rank: 2) { id }", {"nested_arg", "optional_before_required_arg"}),
    ("TeamFields.lead(kind=Kind.B, rank=1).alias('l2').fields(UserFields.id)", "l2: lead(kind: B, rank: 1) { id }", {"nested_arg", "alias", "optional_before_required_arg", "enum_arg"}),
]
ROOTS = [
    # (python root, graphql root field, kind of sub-selection, tags)
    ("Query.me()", "me", "user", set()),
    ("Query.user_by_id(user_id='1')", 'userById(userId: "1")', "user", {"id_arg"}),
    ("Query.users(ids=['1', '2'])", 'users(ids: ["1", "2"])', "user", {"list_arg", "root_list_arg"}),
    ("Query.users(ids=['1'], filter=Filter(name='x', kind_of=Kind.B))", 'users(ids: ["1"], filter: {name: "x", kindOf: B})', "user", {"list_arg", "root_list_arg", "input_arg"}),
    ("Query.users(ids=['1'], filter=None, blob={'k': 1})", 'users(ids: ["1"], blob: {k: 1})', "user", {"list_arg", "root_list_arg", "none_arg", "blob_arg"}),
    ("Query.search(text='t')", 'search(text: "t")', "search", {"union"}),
    ("Query.search(text='t', kinds=[Kind.A, None])", 'search(text: "t", kinds: [A, null])', "search", {"union", "list_arg", "enum_list_arg"}),
    ("Query.node(id='n1')", 'node(id: "n1")', "node", {"interface"}),
    ("Query.team()", "team", "team", set()),
    ("Query.find(first=10)", "find(first: 10)", "user_small", {"optional_before_required_arg"}),
    ("Query.top(limit=2, kind=Kind.A)", "top(limit: 2, kind: A)", "user_small", {"nonnull_default_arg", "enum_arg"}),
    ("Query.top(limit=2, kind=Kind.B, offset=1)", "top(limit: 2, kind: B, offset: 1)", "user_small", {"nonnull_default_arg", "enum_arg"}),
    ("Query.find(kind=Kind.A, first=5, after='c')", 'find(kind: A, first: 5, after: "c")', "user_small", {"optional_before_required_arg", "enum_arg"}),
]
SEARCH_SELS = [
    (".on('User', UserFields.id)", "... on User { id }", set()),
    (".on('Post', PostFields.id, PostFields.title())", "... on Post { id title }", set()),
    (".on('User', UserFields.user_name).on('Post', PostFields.title(upper=True))", "... on User { userName } ... on Post { title(upper: true) }", {"nested_arg", "inline_arg"}),
]
NODE_SELS = [
    (".fields(NodeInterface.id)", "id", set()),
    (".fields(NodeInterface.id).on('User', UserFields.user_name)", "id ... on User { userName }", set()),
    (".on('Post', PostFields.title())", "... on Post { title }", set()),
]


def expressions(tier):
    out = []
    for py, gql, kind, tags in ROOTS:
        if kind == "user":
            combos = [(i,) for i in USER_ITEMS] + list(itertools.combinations(USER_ITEMS, 2))
            for combo in combos:
                sel_py = ", ".join(c[0] for c in combo)
                sel_gql = " ".join(c[1] for c in combo)
                t = set(tags).union(*[c[2] for c in combo])
                out.append((f"{py}.fields({sel_py})", f"{gql} {{ {sel_gql} }}", t))
            out.append((f"{py}.alias('root').fields(UserFields.id)", f"root: {gql} {{ id }}", set(tags) | {"alias"}))
        elif kind == "team":
            combos = [(i,) for i in TEAM_ITEMS] + list(itertools.combinations(TEAM_ITEMS, 2))
            for combo in combos:
                out.append((f"{py}.fields({', '.join(c[0] for c in combo)})", f"{gql} {{ {' '.join(c[1] for c in combo)} }}", set(tags).union(*[c[2] for c in combo])))
        elif kind == "user_small":
            for it in USER_ITEMS[:2] + USER_ITEMS[5:6]:
                out.append((f"{py}.fields({it[0]})", f"{gql} {{ {it[1]} }}", set(tags) | it[2]))
        elif kind == "search":
            for spy, sgql, st in SEARCH_SELS:
                out.append((py + spy, f"{gql} {{ {sgql} }}", set(tags) | st))
        else:
            for spy, sgql, st in NODE_SELS:
                out.append((py + spy, f"{gql} {{ {sgql} }}", set(tags) | st))
    out.append(("Query.count()", "count", {"scalar_root"}))
    return out


def operations(tier):
    exprs = expressions(tier)
    ops = [("query", [e], set(e[2])) for e in exprs]
    picks = exprs[:: 7 if tier == "quick" else 3]
    for a, b in itertools.combinations(picks[:12 if tier == "quick" else 30], 2):
        if a[1].split("(")[0].split(" ")[0] == b[1].split("(")[0].split(" ")[0]:
            continue  # the same root field twice without alias is exercised once, explicitly, below
        ops.append(("query", [a, b], set(a[2]) | set(b[2]) | {"two_top_level_fields"}))
    ops.append(("query", [exprs[1], exprs[1]], set(exprs[1][2]) | {"two_top_level_fields", "same_field_twice"}))
    schema = get_schema()
    ops = [o for o in ops if "same_field_twice" in o[2] or not validate(schema, parse(o[0] + " Ref { " + " ".join(e[1] for e in o[1]) + " }"), specified_rules)]
    m = ("Mutation.rename_user(user_id='1', new_name='n').fields(UserFields.id, UserFields.user_name)", 'renameUser(userId: "1", newName: "n") { id userName }', {"mutation"})
    ops.append(("mutation", [m], m[2]))
    for m2 in (("Mutation.update_post(id='p1', title='t').fields(PostFields.id)", 'updatePost(id: "p1", title: "t") { id }', {"mutation", "optional_before_required_arg"}),
               ("Mutation.update_post(id='p1', published=False, title=None).fields(PostFields.id)", 'updatePost(id: "p1", published: false) { id }', {"mutation", "optional_before_required_arg", "none_arg"})):
        ops.append(("mutation", [m2], m2[2]))
    return ops


def run_reference(schema, text, variables=None):
    doc = parse(text)
    rec = []

    def resolver(source, info, **args):
        rec.append((info.parent_type.name, info.field_name, json.dumps(args, sort_keys=True, default=lambda o: getattr(o, "value", str(o)))))
        from graphql import get_named_type, is_leaf_type, is_list_type, is_non_null_type
        t = info.return_type
        if is_non_null_type(t):
            t = t.of_type
        named = get_named_type(t)
        v = "x" if is_leaf_type(named) else {"__typename": {"SearchResult": "Post", "Node": "User"}.get(named.name, named.name)}
        if named.name == "Int":
            v = 1
        while is_list_type(t):      # one item per list level
            v = [v]
            t = t.of_type
            if is_non_null_type(t):
                t = t.of_type
        return v
    res = execute_sync(schema, doc, variable_values=variables or {}, field_resolver=resolver, type_resolver=lambda v, i, t: v["__typename"])
    return res, sorted(rec)


def check_document(schema, body, optype, exprs, problems):  # schema: the case's schema (default family or a derived one)
    q = body.get("query")
    try:
        doc = parse(q)
    except Exception as e:  # noqa
        problems.append(("sent_not_parseable", f"{e}"))
        return
    errs = validate(schema, doc, specified_rules)
    if errs:
        problems.append(("sent_invalid", "; ".join(e.message for e in errs)[:400]))
    # variable types vs the argument each variable feeds
    op = doc.definitions[0]
    declared = {}
    for v in op.variable_definitions or ():
        n = v.variable.name.value
        if n in declared:
            problems.append(("variable_declared_twice", n))
        declared[n] = print_ast(v.type)
    ti = TypeInfo(schema)
    used = {}

    class V(Visitor):
        def enter_argument(self, node, *_):
            arg = ti.get_argument()
            if node.value.kind == "variable" and arg is not None:
                used.setdefault(node.value.name.value, []).append(str(arg.type))
    visit(doc, TypeInfoVisitor(ti, V()))
    for n, types in used.items():
        for t in types:
            if declared.get(n) != t:
                problems.append(("variable_type", f"${n} declared {declared.get(n)} but feeds an argument of type {t}"))
    # faithful: same response shape and same resolver arguments as the equivalent hand-written text
    ref_text = optype + " Ref { " + " ".join(e[1] for e in exprs) + " }"
    try:
        rres, rrec = run_reference(schema, ref_text)
    except Exception as e:  # noqa
        problems.append(("harness_reference_text", f"{ref_text}: {e}"))
        return
    if rres.errors:
        problems.append(("harness_reference_text", f"{ref_text}: {rres.errors}"))
        return
    if errs:
        return
    sres, srec = run_reference(schema, q, body.get("variables") or {})
    if sres.errors:
        problems.append(("sent_execution_errors", "; ".join(e.message for e in sres.errors)[:300]))
        return
    if srec != rrec:
        problems.append(("resolver_arguments_differ", f"sent -> {srec} ; equivalent text -> {rrec}"))
    if sres.data != rres.data:
        problems.append(("response_shape_differs", f"sent -> {json.dumps(sres.data)[:250]} ; equivalent text -> {json.dumps(rres.data)[:250]}"))


def member(cls, graphql_name):
    """The builder member for a GraphQL field, whatever spelling the generator chose for it (the document decides)."""
    from ariadne_codegen.utils import str_to_snake_case
    sn = str_to_snake_case(graphql_name)
    cands = (graphql_name, graphql_name + "_", sn, sn + "_", sn.lstrip("_"), sn.lstrip("_") + "_")
    for cand in cands:            # the class's own members first (inherited helpers such as type.mro must not win)
        if cand in vars(cls):
            return getattr(cls, cand)
    for cand in cands:
        if hasattr(cls, cand):
            return getattr(cls, cand)
    raise AttributeError(f"{cls.__name__} has no member for GraphQL field {graphql_name!r} (members: {[k for k in vars(cls) if not k.startswith('__')][:12]})")


def call_with_argument(method, graphql_arg, value):
    """Call a builder method passing `value` for the GraphQL argument, whatever spelling the generator chose for the Python parameter."""
    import inspect
    from ariadne_codegen.utils import str_to_snake_case
    params = list(inspect.signature(method).parameters)   # bound classmethod: `cls` is not listed
    sn = str_to_snake_case(graphql_arg)
    for cand in (sn, sn + "_", graphql_arg, graphql_arg + "_", sn.lstrip("_"), sn.lstrip("_") + "_"):
        if cand in params:
            return method(**{cand: value})
    raise TypeError(f"no parameter for GraphQL argument {graphql_arg!r} among {params}")


def derived_name_cases(tier):
    """One tiny schema per member name: the name as attribute field, as method field returning an object, as method field returning a
    leaf, and as root field; every builder expression has its equivalent text."""
    from mc.corpus2 import name_catalogue
    cases = []
    from ariadne_codegen.utils import str_to_snake_case
    from mc.corpus2 import harvest_generated_identifiers
    harvested = [n for n in harvest_generated_identifiers() if n not in set(name_catalogue())]
    for n in list(name_catalogue()) + harvested:
        if n in ("tt", "mm", "ll", "zz", "Zz", "aa"):
            continue
        import keyword
        camel = str_to_snake_case(n) != n   # method fields with such names are the known finding sent_invalid|camel_method_field
        kw = keyword.iskeyword(str_to_snake_case(n))
        kinds = {
            "attr": (f"type T {{ {n}: Int zz: ID }}\ntype Query {{ tt: T }}\n", f"Query.tt().fields(_m(TFields, '{n}'))", f"tt {{ {n} }}", set()),
            "method_object": (f"type Sub {{ zz: ID }}\ntype M {{ {n}(a: Int): Sub zz: ID }}\ntype Query {{ mm: M }}\n",
                              f"Query.mm().fields(_m(MFields, '{n}')(a=1).fields(SubFields.zz))", f"mm {{ {n}(a: 1) {{ zz }} }}", ({"camel_method_field"} if camel else set()) | ({"keyword_method_field"} if kw else set())),
            "method_leaf": (f"type L {{ {n}(a: Int): Int zz: ID }}\ntype Query {{ ll: L }}\n", f"Query.ll().fields(_m(LFields, '{n}')(a=2))", f"ll {{ {n}(a: 2) }}",
                            ({"camel_method_field"} if camel else set()) | ({"keyword_method_field"} if kw else set())),
            "root": (f"type T {{ zz: ID }}\ntype Query {{ {n}: T }}\n", f"_m(Query, '{n}')().fields(TFields.zz)", f"{n} {{ zz }}", set()),
            # the name as ARGUMENT of a nested method field and of a root field (python parameter looked up from the signature)
            "argument": (f"type A {{ aa({n}: Int, other: Int): Int zz: ID }}\ntype Query {{ tt: A }}\n", f"Query.tt().fields(_a(AFields.aa, '{n}', 3))", f"tt {{ aa({n}: 3) }}", set()),
            "root_argument": (f"type T {{ zz: ID }}\ntype Query {{ tt({n}: Int, other: Int): T }}\n", f"_a(Query.tt, '{n}', 4).fields(TFields.zz)", f"tt({n}: 4) {{ zz }}", set()),
        }
        for kind, (sch, py, gql, extra) in kinds.items():
            cases.append(dict(kind="expr", options={}, schema_text=sch, ops=[("query", [(py, gql, set())])], tags={"derived_names", f"name:{n}@{kind}"} | extra))
            if camel and not kw and not keyword.iskeyword(n):
                # with convert_to_snake_case = false the members keep the GraphQL spelling; the documents must stay right for every member kind
                cases.append(dict(kind="expr", options={"convert_to_snake_case": False}, schema_text=sch, ops=[("query", [(py, gql, set())])],
                                  tags={"derived_names", f"name:{n}@{kind}", "snake_off"}))
    return cases


VAL_SCHEMA = """
enum Kind { A B }
scalar Bignum
input Patch { bio: String age: Int flag: Boolean kind: Kind tags: [String] inner: Patch big: Bignum score: Float }
type T { id: ID! echo(n: Int, s: String, b: Boolean, f: Float, k: Kind, big: Bignum, p: Patch): String needbig(big: Bignum!): String tagged(tags: [String]): String }
type Query { t: T echo(n: Int, s: String, b: Boolean, f: Float, k: Kind, big: Bignum, p: Patch): String needbig(big: Bignum!): String tagged(tags: [String]): String }
type Mutation { patch(p: Patch!, big: Bignum, note: String): T }
"""
VAL_OPTIONS = {"scalars": {"Bignum": {"type": "int", "serialize": "str"}}}
# (python keyword arguments, GraphQL argument text, tags): valid values that are falsy in Python, explicit nulls inside input objects
VAL_ARGS = [
    ("n=0", "n: 0", {"falsy:int"}), ("n=5", "n: 5", set()), ("s=''", 's: ""', {"falsy:str"}), ("b=False", "b: false", {"falsy:bool"}), ("f=0.0", "f: 0.0", {"falsy:float"}),
    ("n=0, s='', b=False", 'n: 0, s: "", b: false', {"falsy:int", "falsy:str", "falsy:bool"}), ("n=None, s='x'", 's: "x"', {"none_arg"}),
    ("big=7", 'big: "7"', {"serialized_scalar"}), ("big=0", 'big: "0"', {"serialized_scalar", "falsy:scalar"}), ("big=0, n=0", 'big: "0", n: 0', {"serialized_scalar", "falsy:scalar", "falsy:int"}),
    ("p=Patch(bio='b')", 'p: {bio: "b"}', {"input_arg"}), ("p=Patch(bio=None)", "p: {bio: null}", {"input_arg", "explicit_null_in_input"}),
    ("p=Patch(bio=None, age=3, kind=Kind.A)", "p: {bio: null, age: 3, kind: A}", {"input_arg", "explicit_null_in_input"}),
    ("p=Patch(age=0, flag=False, bio='', tags=[], score=0.0)", 'p: {age: 0, flag: false, bio: "", tags: [], score: 0.0}', {"input_arg", "falsy_in_input"}),
    ("p=Patch(inner=Patch(bio=None, kind=Kind.B))", "p: {inner: {bio: null, kind: B}}", {"input_arg", "explicit_null_in_input", "nested_input"}),
    ("p=Patch(inner=None, tags=None)", "p: {inner: null, tags: null}", {"input_arg", "explicit_null_in_input"}),
    ("p=Patch(tags=[None, 'x'])", 'p: {tags: [null, "x"]}', {"input_arg", "null_list_item_in_input"}),
    ("p=Patch(big=0, age=1)", 'p: {big: "0", age: 1}', {"input_arg", "serialized_scalar_in_input", "falsy:scalar"}),
    ("p=Patch(big=9)", 'p: {big: "9"}', {"input_arg", "serialized_scalar_in_input"}),
    ("p=Patch()", "p: {}", {"input_arg", "empty_input"}),
]


def derived_value_cases(tier):
    """Argument VALUES: every entry of VAL_ARGS at a root field, at a method field one level down and (inputs) in a mutation, sync and async."""
    cases = []
    for cfg in ({}, {"async_client": False}):
        for py, gql, tags in VAL_ARGS:
            ops = [("query", [(f"Query.echo({py})", f"echo({gql})", set())]),
                   ("query", [(f"Query.t().fields(TFields.echo({py}), TFields.id)", f"t {{ echo({gql}) id }}", set())])]
            if py.startswith("p="):
                ops.append(("mutation", [(f"Mutation.patch({py}, note='').fields(TFields.id)", f'patch({gql}, note: "") {{ id }}', set())]))
                ops.append(("mutation", [(f"Mutation.patch({py}, big=0).fields(TFields.id)", f'patch({gql}, big: "0") {{ id }}', set())]))
            if py.startswith("big=") and "," not in py:
                ops.append(("query", [(f"Query.needbig({py})", f"needbig({gql})", set())]))
                ops.append(("query", [(f"Query.t().fields(TFields.needbig({py}))", f"t {{ needbig({gql}) }}", set())]))
            for op in ops:
                where = "mutation" if op[0] == "mutation" else ("nested_field" if "TFields.echo" in op[1][0][0] or "TFields.needbig" in op[1][0][0] else "root_field")
                cases.append(dict(kind="expr", options=dict(cfg, **VAL_OPTIONS), schema_text=VAL_SCHEMA, ops=[op], tags=set(tags) | {"derived_values", f"value_at:{where}"}))
    return cases


def derived_shape_cases(tier):
    """Every wrapper shape (14) around an object type as nested method field and as root field, and around Int as argument type."""
    from mc import corpus
    cases = []
    for i, shape in enumerate(corpus.SHAPES):
        t_obj, t_int = shape.replace("T", "Cell"), shape.replace("T", "Int")
        r, c = "rows" + chr(97 + i), "cells" + chr(97 + i)    # (no digits / capitals: method fields with such names are the known camel_method_field finding)
        sch = f"type Cell {{ zz: ID }}\ntype Board {{ {r}: {t_obj} zz: ID }}\ntype Query {{ board: Board {c}: {t_obj} }}\n"
        cases.append(dict(kind="expr", options={}, schema_text=sch, ops=[("query", [(f"Query.board().fields(_m(BoardFields, '{r}')().fields(CellFields.zz))", f"board {{ {r} {{ zz }} }}", set())])],
                          tags={"derived_shapes", f"shape:{shape}", "shape_at:nested_field"}))
        cases.append(dict(kind="expr", options={}, schema_text=sch, ops=[("query", [(f"_m(Query, '{c}')().fields(CellFields.zz)", f"{c} {{ zz }}", set())])],
                          tags={"derived_shapes", f"shape:{shape}", "shape_at:root_field"}))
    return cases


def derived_graph_cases(tier):
    """Every directed graph of object-type references on 3 types (self loops in the thorough tier), fields written in ascending and in
    descending target order: every type reachable from Query needs its builder class, and every edge must be selectable."""
    import itertools as it
    names = ["A", "B", "C"]
    pairs = [(x, y) for x in names for y in names if tier != "quick" or x != y]
    cases = []
    for r in range(len(pairs) + 1):
        for edges in it.combinations(pairs, r):
            for order in ("asc", "desc"):
                parts = []
                for x in names:
                    tgt = [y for (a, y) in edges if a == x]
                    tgt = sorted(tgt, reverse=(order == "desc"))
                    parts.append(f"type {x} {{ " + " ".join(["id: ID"] + [f"{y.lower()}(n: Int): {y}" for y in tgt]) + " }")
                if order == "desc":
                    parts = [p.replace("{ id: ID ", "{ ").replace(" }", " id: ID }") for p in parts]  # back-references first, scalar last
                sch = "\n".join(parts) + "\ntype Query { a: A }\n"
                # BFS paths from A
                paths = {"A": []}
                todo = ["A"]
                while todo:
                    x = todo.pop(0)
                    for (a, y) in edges:
                        if a == x and y not in paths:
                            paths[y] = paths[x] + [(x, y)]
                            todo.append(y)
                exprs = []
                for (x, y) in edges:
                    if x not in paths:
                        continue
                    chain = paths[x] + [(x, y)]
                    py = f"{y}Fields.id"
                    gql = "id"
                    for (p, q) in reversed(chain):
                        py = f"{p}Fields.{q.lower()}().fields({py})"
                        gql = f"{q.lower()} {{ {gql} }}"
                    exprs.append((f"Query.a().fields({py})", f"a {{ {gql} }}", set()))
                if not exprs:
                    continue
                cases.append(dict(kind="expr_multi", options={}, schema_text=sch, ops=[("query", [e]) for e in exprs],
                                  tags={"derived_type_graph", f"edges:{len(edges)}", f"field_order:{order}"} | ({"self_loop"} if any(a == b for a, b in edges) else set())))
    return cases


def build_in(ns, expr):
    return eval(expr, ns)  # noqa: S307 — expressions come from this file's grammar


def evaluate(case):
    """case: options, ops = [(optype, [exprs])], histories: list of expression strings executed first."""
    schema = build_schema(case["schema_text"]) if case.get("schema_text") else get_schema()
    out = {"status": "ok", "results": []}
    import contextlib as _cl
    pre = case.get("pregenerated")   # (root dir, package name): the history phase generates the default package once and every forked probe imports it
    with (_cl.nullcontext(pre[0]) if pre else genpkg.scratch()) as d:
        try:
            if pre:
                pkg = pre[1]
            else:
                pkg, pdir, _ = genpkg.generate(d, case.get("schema_text") or SCHEMA, None, dict({"enable_custom_operations": True}, **case["options"]))
            mod, mods = genpkg.import_package(d, pkg)
        except genpkg.GenError as e:
            out.update(status="gen_error", error=str(e)[:300], error_type=e.exc_type)
            return out
        except BaseException as e:  # noqa
            out.update(status="import_error", error=f"{type(e).__name__}: {str(e)[:300]}", error_type=type(e).__name__)
            return out
        ns = {"_m": member, "_a": call_with_argument}
        for m in ("custom_fields", "custom_queries", "custom_mutations", "custom_typing_fields", "input_types", "enums"):
            if m in mods:
                ns.update({k: v for k, v in vars(mods[m]).items() if not k.startswith("_")})
        is_async = case["options"].get("async_client", True)
        captured = []

        def handler(request):
            captured.append(json.loads(request.content))
            return httpx.Response(200, json={"data": {}})
        c = clients.make_client(mod.Client, is_async, handler)

        def send(optype, exprs):
            del captured[:]
            try:
                objs = [build_in(ns, e[0]) for e in exprs]
            except Exception as e:  # noqa
                return None, f"building the expression failed: {type(e).__name__}: {str(e)[:200]}"
            try:
                clients.call(is_async, getattr(c, optype), *objs, operation_name="Op")
            except Exception as e:  # noqa
                if not captured:
                    return None, f"{type(e).__name__}: {str(e)[:200]}"
            return (captured[0] if captured else None), None

        def snapshot():
            snap = {}
            for cname, cls in vars(mods["custom_fields"]).items():
                if isinstance(cls, type):
                    for an, av in vars(cls).items():
                        if hasattr(av, "_subfields") and hasattr(av, "_alias"):
                            snap[f"{cname}.{an}"] = (av._alias, len(av._subfields), sorted(av._inline_fragments), sorted(av.formatted_variables))
            # anything else of the package that can carry state from one operation to the next: module-level and class-level containers,
            # memoisation caches, counters, and what the client object holds
            for mname_, m_ in mods.items():
                for an, av in list(vars(m_).items()):
                    if an.startswith("__"):
                        continue
                    if isinstance(av, (dict, list, set)) and an != "__all__":
                        snap[f"module:{mname_}.{an}"] = repr(av)[:1500]
                    elif isinstance(av, (int, float)) and not isinstance(av, bool):
                        snap[f"module:{mname_}.{an}"] = av
                    elif hasattr(av, "cache_info"):
                        snap[f"cache:{mname_}.{an}"] = av.cache_info().currsize
                    elif isinstance(av, type) and getattr(av, "__module__", None) == m_.__name__:
                        for cn, cv in list(vars(av).items()):
                            if cn.startswith("__"):
                                continue
                            if isinstance(cv, (dict, list, set)) or (isinstance(cv, (int, float)) and not isinstance(cv, bool)):
                                snap[f"class:{mname_}.{an}.{cn}"] = repr(cv)[:1500]
                            elif hasattr(getattr(cv, "__func__", cv), "cache_info"):
                                snap[f"cache:{mname_}.{an}.{cn}"] = getattr(cv, "__func__", cv).cache_info().currsize
            for an, av in vars(c).items():
                if isinstance(av, (dict, list, set, str, int, float, type(None))):
                    snap[f"client.{an}"] = repr(av)[:500]
            return snap
        for h in case.get("history") or []:
            send(h[0], h[1])
        out["state"] = snapshot()
        for optype, exprs in case["ops"]:
            body, err = send(optype, exprs)
            problems = []
            if body is None:
                problems.append(("call_failed", err or "no request sent"))
            else:
                if case.get("check_documents", True):
                    check_document(schema, body, optype, exprs, problems)
            out["results"].append({"doc": None if body is None else {"query": body.get("query"), "variables": body.get("variables")}, "problems": problems})
    return out


HISTORY_MENU = [
    ("query", [("Query.me().fields(UserFields.id.alias('a1'))", "me { a1: id }", set())]),
    ("query", [("Query.me().fields(UserFields.id)", "me { id }", set())]),
    ("query", [("Query.me().fields(UserFields.user_name.alias('n'))", "me { n: userName }", set())]),
    ("query", [("Query.me().fields(UserFields.user_name, UserFields.id)", "me { userName id }", set())]),
    ("query", [("Query.user_by_id(user_id='1').fields(UserFields.posts(first=1).fields(PostFields.id.alias('pid')))", 'userById(userId: "1") { posts(first: 1) { pid: id } }', set())]),
    ("query", [("Query.user_by_id(user_id='2').fields(UserFields.posts(first=5).fields(PostFields.id))", 'userById(userId: "2") { posts(first: 5) { id } }', set())]),
    ("query", [("Query.node(id='n').fields(NodeInterface.id.alias('nid')).on('User', UserFields.id)", 'node(id: "n") { nid: id ... on User { id } }', set())]),
    ("query", [("Query.node(id='n').fields(NodeInterface.id)", 'node(id: "n") { id }', set())]),
    ("query", [("Query.search(text='s').on('User', UserFields.id.alias('z'))", 'search(text: "s") { ... on User { z: id } }', set())]),
    ("query", [("Query.search(text='s').on('User', UserFields.id, UserFields.user_name)", 'search(text: "s") { ... on User { id userName } }', set())]),
    # the same members with other argument sets / values / operation type (memoisation by name would show here)
    ("query", [("Query.find(first=10).fields(UserFields.id)", "find(first: 10) { id }", set())]),
    ("query", [("Query.find(kind=Kind.A, first=5, after='c').fields(UserFields.id)", 'find(kind: A, first: 5, after: "c") { id }', set())]),
    ("query", [("Query.user_by_id(user_id='3').fields(UserFields.id)", 'userById(userId: "3") { id }', set())]),
    ("mutation", [("Mutation.rename_user(user_id='1', new_name='n').fields(UserFields.id)", 'renameUser(userId: "1", newName: "n") { id }', set())]),
    ("mutation", [("Mutation.update_post(id='p1', title='t').fields(PostFields.id)", 'updatePost(id: "p1", title: "t") { id }', set())]),
    ("query", [("Query.team().fields(TeamFields.posts(first=3).fields(PostFields.id))", "team { posts(first: 3) { id } }", set())]),
    # the same method called with the SAME argument values, then given other sub-fields / another alias (a shared or memoised builder object would carry them over)
    ("query", [("Query.me().fields(UserFields.posts().fields(PostFields.id))", "me { posts { id } }", set())]),
    ("query", [("Query.me().fields(UserFields.posts().fields(PostFields.title()))", "me { posts { title } }", set())]),
    ("query", [("Query.me().fields(UserFields.posts(first=2).alias('latest').fields(PostFields.id))", "me { latest: posts(first: 2) { id } }", set())]),
    ("query", [("Query.me().fields(UserFields.posts(first=2).fields(PostFields.id, PostFields.title()))", "me { posts(first: 2) { id title } }", set())]),
    ("query", [("Query.me().fields(UserFields.best_friend().fields(UserFields.id))", "me { bestFriend { id } }", set())]),
    ("query", [("Query.me().fields(UserFields.best_friend().alias('bf').fields(UserFields.user_name))", "me { bf: bestFriend { userName } }", set())]),
    ("query", [("Query.me().fields(UserFields.best_friend(with_kind=Kind.A).fields(UserFields.user_name))", "me { bestFriend(withKind: A) { userName } }", set())]),
    ("query", [("Query.me().fields(UserFields.best_friend(with_kind=Kind.A).fields(UserFields.id))", "me { bestFriend(withKind: A) { id } }", set())]),
    ("query", [("Query.user_by_id(user_id='1').fields(UserFields.posts().fields(PostFields.title(upper=True).alias('shout')))", 'userById(userId: "1") { posts { shout: title(upper: true) } }', set())]),
    ("query", [("Query.user_by_id(user_id='1').fields(UserFields.posts().fields(PostFields.title(upper=True)))", 'userById(userId: "1") { posts { title(upper: true) } }', set())]),
    # input-object arguments: equal shape, other values / other instance
    ("query", [("Query.users(ids=['1'], filter=Filter(name='x', kind_of=Kind.B)).fields(UserFields.id)", 'users(ids: ["1"], filter: {name: "x", kindOf: B}) { id }', set())]),
    ("query", [("Query.users(ids=['1'], filter=Filter(name='y')).fields(UserFields.id)", 'users(ids: ["1"], filter: {name: "y"}) { id }', set())]),
    ("query", [("Query.users(ids=['2'], filter=Filter(nested=Filter(name='z'))).fields(UserFields.user_name)", 'users(ids: ["2"], filter: {nested: {name: "z"}}) { userName }', set())]),
]


def main(tier):
    rep = Report("C14", tier, "model_checking")
    genpkg.warm()
    ops = operations(tier)
    cases = []
    chunk = 12
    for cfg in ({}, {"async_client": False}):
        sel = ops if not cfg or tier != "quick" else ops[::5]
        for i in range(0, len(sel), chunk):
            # each operation is built from fresh expressions but in one process: keep chunks small and ALSO run every operation alone (below) for attribution
            pass
        for o in sel:
            cases.append(dict(kind="expr", options=cfg, ops=[(o[0], o[1])], tags=o[2]))
    cases += derived_name_cases(tier) + derived_graph_cases(tier) + derived_shape_cases(tier) + derived_value_cases(tier)
    results = pool.run_cases(evaluate, cases, timeout=300, progress=500)
    docs = 0
    distinct = set()
    for case, (st, r) in zip(cases, results):
        feats = set(case["tags"]) | {f"cfg:{k}={v}" for k, v in case["options"].items()}
        desc = {"expressions": [e[0] for e in case["ops"][0][1]], "equivalent": [e[1] for e in case["ops"][0][1]], "operation_type": case["ops"][0][0], "options": case["options"]}
        if case.get("schema_text"):
            desc["schema_text"] = case["schema_text"]
            if case["kind"] == "expr_multi":
                desc["all_ops"] = [[o[0], [list(e[:2]) for e in o[1]]] for o in case["ops"]]
        if rep.triage:
            rep.seen(feats)
        if st != "ok":
            rep.violation("harness_" + st, feats, str(r)[:500], desc)
            continue
        if r["status"] != "ok":
            rep.violation(f'{r["status"]}:{r.get("error_type")}', feats, r["error"], desc)
            continue
        for res in r["results"]:
            docs += 1
            if res["doc"]:
                distinct.add(res["doc"]["query"])
            for clause, detail in res["problems"]:
                rep.violation(clause, feats, detail, dict(desc, sent=res["doc"]))
    # ---- histories: explicit-state BFS, states = snapshot of everything in the package that can carry state between operations
    depth = 2 if tier == "quick" else 3
    states = transitions = 0
    hist_cfgs = [({}, depth), ({"opentelemetry_client": True}, 1), ({"async_client": False, "opentelemetry_client": True}, 1)] + ([({"async_client": False}, 1)] if tier != "quick" else [])
    for hopts, depth in hist_cfgs:
        states0, transitions0 = states, transitions
        hroot = genpkg.scratch_dir("verif-c14-hist-")
        hst, hpkg = pool.run_forked(lambda _: genpkg.generate(hroot, SCHEMA, None, dict({"enable_custom_operations": True}, **hopts))[0], None, timeout=300)
        if hst != "ok":
            rep.violation("harness_history", [], str(hpkg)[:300], {"stage": "pregenerate"})
        PRE = (hroot, hpkg)
        full_depth = 2   # every history of length < full_depth is expanded whatever state it leads to; beyond, states are de-duplicated by the snapshot
        base_st, base = pool.run_forked(evaluate, dict(options=dict(hopts), ops=HISTORY_MENU, history=[], check_documents=False, pregenerated=PRE))
        # the fresh document of each menu entry must itself come from a fresh process
        fresh_cases = [dict(options=dict(hopts), ops=[e], history=[], check_documents=False, pregenerated=PRE) for e in HISTORY_MENU]
        fresh = pool.run_cases(evaluate, fresh_cases, timeout=300)
        fresh_docs = [r["results"][0]["doc"] if st == "ok" and r["status"] == "ok" else None for st, r in fresh]
        seen_states = {}
        frontier = [[]]
        for d in range(depth + 1):
            hcases = [dict(options=dict(hopts), ops=HISTORY_MENU, history=[HISTORY_MENU[i] for i in h], check_documents=False, pregenerated=PRE) for h in frontier]
            hres = pool.run_cases(evaluate, hcases, timeout=300)
            nxt = []
            for h, (st, r) in zip(frontier, hres):
                if st != "ok" or r["status"] != "ok":
                    rep.violation("harness_history", [], str(r)[:300], {"history": h})
                    continue
                key = json.dumps(r["state"], sort_keys=True)
                if key in seen_states and len(h) >= full_depth:
                    continue   # (histories shorter than full_depth are all expanded: no reliance on the state abstraction there)
                if key not in seen_states:
                    seen_states[key] = h
                    states += 1
                # NOTE: the ops of the menu are evaluated one after another in this state; only the FIRST evaluation happens exactly in state(h).
                # Every menu entry is therefore evaluated as the first op of its own run:
                for i, e in enumerate(HISTORY_MENU):
                    nxt.append(h + [i])
            # evaluate each (h, e) as "history h then e" in one process = the last element of h+[i] is the probe
            probes = [dict(options=dict(hopts), ops=[HISTORY_MENU[p[-1]]], history=[HISTORY_MENU[i] for i in p[:-1]], check_documents=False, pregenerated=PRE) for p in nxt]
            pres = pool.run_cases(evaluate, probes, timeout=300)
            for p, (st, r) in zip(nxt, pres):
                transitions += 1
                if st != "ok" or r["status"] != "ok":
                    rep.violation("harness_history", [], str(r)[:300], {"history": p})
                    continue
                doc = r["results"][0]["doc"]
                want = fresh_docs[p[-1]]
                if doc != want:
                    hist = [HISTORY_MENU[i][1][0][0] for i in p[:-1]]
                    hfeats = {"history"} | {f"cfg:{k}={v}" for k, v in hopts.items()} | ({"history:alias_on_class_attribute"} if any(".alias(" in x and ("Fields.id.alias" in x or "Fields.user_name.alias" in x or "Interface.id.alias" in x) for x in hist) else set())
                    rep.violation("document_depends_on_history", hfeats, f"after {hist} the expression {HISTORY_MENU[p[-1]][1][0][0]} builds {json.dumps(doc)[:250]} instead of {json.dumps(want)[:250]}",
                                  {"history": hist, "expression": HISTORY_MENU[p[-1]][1][0][0]})
            frontier = [p for p in nxt] if d < depth else []
            # BFS continues only from histories that lead to NEW states (dedup happens at the top of the next round)
            if d >= depth:
                break
        shutil.rmtree(hroot, ignore_errors=True)

    depth = hist_cfgs[0][1]
    rep.sample({"expression": ops[5][1][0][0], "equivalent_graphql": ops[5][1][0][1]})
    rep.sample({"two_top_level": [e[0] for e in ops[-3][1]]})
    rep.sample({"history_menu": [m[1][0][0] for m in HISTORY_MENU[:4]]})
    return rep.finish({
        "states": max(states, 1), "transitions": max(transitions, 1), "traces_validated_against_impl": docs + transitions,
        "evaluations": docs + transitions, "distinct_nontrivial": len(distinct),
        "rule": "expression phase: one document per builder expression tree (roots x argument menus x <=2 items per level, depth 2, one/two top-level fields, sync/async), compared with the hand-written equivalent text through "
                "the reference executor; history phase: BFS over sequences of menu expressions, states = snapshot of mutable attributes of every class-level field object, transitions = (state, expression) probes",
        "exhaustive": True, "expression_operations": len(cases), "history_depth": depth, "history_menu": len(HISTORY_MENU),
    }, assumptions=["each expression is given with a hand-written equivalent GraphQL text (the reference); resolver values are canonical",
                    "state canonicalisation: (_alias, #subfields, inline fragment keys, formatted variable names) per class-level field object — drops nothing the emitted document can depend on"])


def replay(path):
    rec = json.load(open(path))
    c = rec["case"]
    genpkg.warm()
    if "history" in c:
        hist = [m for m in HISTORY_MENU for x in c["history"] if m[1][0][0] == x]
        probe = next(m for m in HISTORY_MENU if m[1][0][0] == c["expression"])
        st, r = pool.run_forked(evaluate, dict(options={}, ops=[probe], history=hist, check_documents=False))
        st2, f = pool.run_forked(evaluate, dict(options={}, ops=[probe], history=[], check_documents=False))
        print("after history:", r["results"][0]["doc"], "\nfresh:", f["results"][0]["doc"])
        return 1 if r["results"][0]["doc"] != f["results"][0]["doc"] else 0
    exprs = [(p, g, set()) for p, g in zip(c["expressions"], c["equivalent"])]
    ops = [(c["operation_type"], exprs)]
    if c.get("all_ops"):
        ops = [(o[0], [(e[0], e[1], set()) for e in o[1]]) for o in c["all_ops"]]
    st, r = pool.run_forked(evaluate, dict(options=c["options"], ops=ops, schema_text=c.get("schema_text")))
    print(st, r)
    return 1 if st != "ok" or r["status"] != "ok" or any(x["problems"] for x in r["results"]) else 0
