"""C04 — every valid input generates, and what is generated loads.

Enumerated: three input sets (result-heavy K, input/mutation/subscription-heavy B, everything C) x the full product of the
six boolean options (64) ; every single deviation of each non-boolean option; operation sets of size 0/1/2/all; the four
documented refusals in all their shapes.  Oracle: (a) only documented refusals raise, with a CodeGenException class,
(b) every emitted .py parses, (c) every module imports, (d) every pydantic model is complete and its annotations resolve,
(e) __init__ re-exports exactly __all__, (f) the reported file list equals the directory listing.
"""
from __future__ import annotations

import ast
import itertools
import json
import os
import re
import sys
import typing

from mc import corpus, genpkg, pool
from mc.report import Report

FR = "fragment FUser on User { id name }\nfragment FNode on Node { id }\n"
A_OPS = [
    "query AGetNode { node { id ... on User { name kind } ... on Admin { level } } }",
    "query AUnion { u { ... on User { id friend { id } } ... on Admin { perms } } ul { __typename } }",
    "query AFrag { user { ...FUser friend { ...FUser } } node { ...FNode } }",
    "query ADirectives($v: Boolean!) { user { id @include(if: $v) name @skip(if: $v) } }",
    "query AList { nodes { id } w { str5 enm3 obj7 { id } uni2 { ... on User { id } } ifc9 { id } } }",
    "query ANested { user { friends { friend { friends { id } } } blob score active kind } named { name } }",
]
SCHEMA_B = """
schema { query: RootQ mutation: RootM subscription: RootS }
enum Color { RED GREEN class None }
enum Unused { X }
enum Soft { type match case }
enum OnlyVariable { P Q }
scalar Date
scalar Upload
interface Ent { id: ID! }
interface Animal implements Ent { id: ID! legs: Int friends(f: Filter): [Animal!] }
type Dog implements Ent & Animal { id: ID! legs: Int color: Color owner: Person friends(f: Filter): [Animal!] }
type Person implements Ent { id: ID! name: String pets(first: Int = 10): [Animal!]! born: Date petsBy(f: Filter, color: Color, only: [OnlyVariable!]): [Animal!]! }
input Filter { and: [Filter!] or: [Filter!] not: Filter soft: Soft = type softs: [Soft!] = [match, case] color: Color = RED name: String class: Int camelCase: [Int!] = [1] born: Date file: Upload }
input Unreferenced { x: Int inner: UnreferencedInner loop: Unreferenced }
input UnreferencedInner { y: Int back: Unreferenced }
type RootQ { find(f: Filter, limit: Int! = 5): [Ent!]! person(id: ID!): Person }
type RootM { rename(id: ID!, name: String!, when: Date): Person upload(file: Upload!, files: [Upload!]): Boolean }
type RootS { changed(color: Color): Dog! }
extend type RootQ { last(only: OnlyVariable): Person }
"""
B_OPS_NOSUB = [
    "query BFind($f: Filter, $limit: Int! = 5) { find(f: $f, limit: $limit) { id ... on Dog { color owner { name born } } ... on Person { pets(first: 2) { id legs } } } }",
    "mutation BRename($id: ID!, $name: String!, $when: Date) { rename(id: $id, name: $name, when: $when) { id name born } }",
    "mutation BUpload($file: Upload!, $files: [Upload!]) { upload(file: $file, files: $files) }",
    "query BPerson($id: ID!) { person(id: $id) { ...PersonBits } }\nfragment PersonBits on Person { id name pets { id } }",
    "query BZLast($only: OnlyVariable) { last(only: $only) { id } }",
]
B_SUB = "subscription BChanged($color: Color) { changed(color: $color) { id color } }"
BOOLS = ["convert_to_snake_case", "async_client", "opentelemetry_client", "include_all_inputs", "include_all_enums", "enable_custom_operations"]
MIXIN_PY = "class MixinA:\n    def hello(self):\n        return 'a'\n\n\nclass MixinB:\n    pass\n"
SCALARS_PY = "from datetime import date\n\n\ndef parse_date(v):\n    return date.fromisoformat(v) if isinstance(v, str) else v\n\n\ndef serialize_date(v):\n    return v.isoformat()\n"


def build_cases(tier):
    cases = []

    def add(label, schema, queries, options=None, files=None, expect="ok", tags=()):
        cases.append(dict(label=label, schema=schema, queries=queries, options=options or {}, files=files or {}, expect=expect, tags=set(tags)))

    a_all = "\n".join(A_OPS) + "\n" + FR
    b_nosub = "\n".join(B_OPS_NOSUB) + "\n"
    b_all = b_nosub + B_SUB + "\n"
    # boolean product x input sets
    for bits in itertools.product((True, False), repeat=len(BOOLS)):
        opts = dict(zip(BOOLS, bits))
        t = {f"{k}={v}" for k, v in opts.items()}
        add("A_all", corpus.SCHEMA_K, a_all, opts, tags=t | {"set:A"})
        if opts["async_client"]:
            add("B_all", SCHEMA_B, b_all, opts, tags=t | {"set:B", "subscription"})
        else:
            add("B_nosub", SCHEMA_B, b_nosub, opts, tags=t | {"set:B"})
            if bits.count(True) >= 4:
                add("B_sub_sync", SCHEMA_B, b_all, opts, expect="NotSupported", tags=t | {"set:B", "refusal:subscription_sync"})
        copts = dict(opts, scalars={"Date": {"type": "datetime.date", "parse": ".custom_scalars.parse_date", "serialize": ".custom_scalars.serialize_date"}},
                     files_to_include=["@custom_scalars.py"])
        add("C_scalars", SCHEMA_B, (b_all if opts["async_client"] else b_nosub), copts, files={"custom_scalars.py": SCALARS_PY},
            tags=t | {"set:C", "scalars"} | ({"custom_operations+custom_scalar"} if opts["enable_custom_operations"] else set()))
    # operation sets of size 0/1/2 over A
    add("A_none", corpus.SCHEMA_K, FR, tags={"opset:0"})
    for op in A_OPS:
        add("A_one", corpus.SCHEMA_K, op + "\n" + FR, tags={"opset:1"})
    for a, b in itertools.combinations(A_OPS, 2):
        add("A_two", corpus.SCHEMA_K, a + "\n" + b + "\n" + FR, tags={"opset:2"})
    # single deviations of non-boolean options
    devs = [
        ("target_package_name", "myPackage", "ok"), ("target_package_name", "graphql_client", "ok"),
        ("client_name", "MyClient", "ok"), ("client_name", "client", "ok"),
        ("client_file_name", "my_client", "ok"), ("client_file_name", "enums", "ParsingError"), ("client_file_name", "a_frag", "ParsingError"),
        ("client_file_name", "base_model", "ParsingError"), ("client_file_name", "exceptions", "ParsingError"),
        ("enums_module_name", "my_enums", "ok"), ("enums_module_name", "input_types", "ParsingError"), ("enums_module_name", "a_union", "ParsingError"),
        ("input_types_module_name", "my_inputs", "ok"), ("input_types_module_name", "client", "ParsingError"),
        ("fragments_module_name", "frags", "ok"), ("fragments_module_name", "enums", "ParsingError"), ("fragments_module_name", "base_model", "ParsingError"),
        ("include_comments", "none", "ok"), ("include_comments", "stable", "ok"), ("include_comments", "timestamp", "ok"),
        ("files_to_include", [], "ok"), ("files_to_include", ["@one.py"], "ok"), ("files_to_include", ["@one.py", "@two.py"], "ok"),
        ("files_to_include", ["@py.typed"], "ok"), ("files_to_include", ["@one.py", "@data.json", "@copy_of_schema.graphql", "@py.typed"], "ok"), ("files_to_include", ["@NOTICE"], "ok"),
        ("files_to_include", ["@client.py"], "ParsingError"), ("files_to_include", ["@one.py", "@sub/one.py"], "ParsingError"),
    ]
    for key, val, expect in devs:
        for base in ({}, {"async_client": False}, {"enable_custom_operations": True}):
            files = {"one.py": "X = 1\n", "two.py": "Y = 2\n", "client.py": "Z = 3\n", "sub/one.py": "W = 4\n", "py.typed": "", "data.json": '{"k": [1, 2]}\n',
                     "copy_of_schema.graphql": "type Query { a: Int }\n", "NOTICE": "plain text, not python {\n"} if key == "files_to_include" else {}
            add("A_dev", corpus.SCHEMA_K, a_all, dict(base, **{key: val}), files=files, expect=expect,
                tags={f"dev:{key}={val}", "deviation"} | {f"{k}={v}" for k, v in base.items()} | ({f"refusal:collision"} if expect != "ok" else set()))
    # custom operations over the input/enum-heavy schema with renamed enums / inputs modules (the builder modules import from them)
    for key, val in (("enums_module_name", "my_enums"), ("input_types_module_name", "my_inputs"), ("client_name", "MyClient"), ("client_file_name", "my_client")):
        add("B_custom_ops_dev", SCHEMA_B, b_nosub, {"enable_custom_operations": True, key: val}, tags={f"dev:{key}={val}", "deviation", "set:B", "custom_operations_module_names"})
    # custom base client file
    base_src = "class MyBase:\n    def __init__(self, url=''):\n        self.url = url\n"
    add("A_custom_base", corpus.SCHEMA_K, a_all, {"base_client_name": "MyBase", "base_client_file_path": "@my_base.py"}, files={"my_base.py": base_src}, tags={"custom_base_client"})
    # mixins
    mq = 'query AMix { user @mixin(from: ".mixins", import: "MixinA") { id friend @mixin(from: ".mixins", import: "MixinB") { id } } }\n' \
         'query AMix2 { user { ...FM } }\nfragment FM on User @mixin(from: ".mixins", import: "MixinA") { id }\n'
    add("A_mixins", corpus.SCHEMA_K, mq, {"files_to_include": ["@mixins.py"]}, files={"mixins.py": MIXIN_PY}, tags={"mixins"})
    # the repository's own end-to-end fixtures (read from /repo at check time)
    from checks import fixtures_common as fc
    for name in fc.available():
        sec = fc.load_fixture(name)
        try:
            schema_text = open(sec["schema_path"]).read()
            queries = open(sec["queries_path"]).read() if sec.get("queries_path") else None
        except Exception:  # noqa
            continue
        keep = {k: v for k, v in sec.items() if k not in ("schema_path", "queries_path", "target_package_name", "target_package_path", "include_comments", "plugins", "extract-operations")}  # plugins are C15's subject
        variants = [{}] if keep.get("base_client_name") or keep.get("async_client") is False else [{}, {"async_client": False}]
        for var in variants + [{"convert_to_snake_case": False}, {"opentelemetry_client": True}][: (2 if not keep.get("base_client_name") else 1)]:
            if queries and "subscription" in queries and var.get("async_client") is False:
                continue
            cases.append(dict(label=f"fixture:{name}", schema=schema_text, queries=queries, options=dict(keep, **var), files={}, expect="ok",
                              tags={f"fixture:{name}"} | {f"{k}={v}" for k, v in var.items()}))
    # fragment graphs whose alphabetical name order disagrees with the dependency order (class ordering in fragments.py)
    from mc import corpus2
    for names in itertools.permutations(("Alpha", "Beta", "Gamma")):
        for g in corpus2.fragment_graphs(3, ("User", "Node") if tier != "quick" else ("User",), names=names, subsets=True):
            if tier == "quick" and "root:one" not in g["tags"] and "root:subset" not in g["tags"] and len(g["edges"]) < 2:
                continue
            if not frag_doc_valid(g["doc_text"]):
                continue
            add("frag_names", corpus.SCHEMA_K, g["doc_text"], tags={"fragment_graph", f"names:{'<'.join(names)}"} | g["tags"])
    # member names: Python keywords, pydantic BaseModel attributes (as written and in camelCase / PascalCase, which only collide
    # after snake-casing), Enum-reserved names; one tiny schema per name, as result field, input field, argument, variable and enum value
    for n in name_catalogue():
        positions = {
            "result_field": (f"type T {{ {n}: Int }}\ntype Query {{ t: T }}\n", f"query Q {{ t {{ {n} }} }}\n"),
            "input_field": (f"input I {{ {n}: Int }}\ntype Query {{ t(i: I): Int }}\n", "query Q($i: I) { t(i: $i) }\n"),
            "variable": ("type Query { t(a: Int): Int }\n", f"query Q(${n}: Int) {{ t(a: ${n}) }}\n"),
        }
        if n not in ("true", "false", "null"):
            positions["enum_value"] = (f"enum E {{ {n} OTHER }}\ntype Query {{ e(x: E): E }}\n", "query Q($x: E) { e(x: $x) }\n")
        for pos, (sch, q) in positions.items():
            for cfg in ({}, {"convert_to_snake_case": False}):
                if cfg and tier == "quick" and n.islower() and "_" not in n:
                    continue  # snake-casing is the identity on these names
                add("member_name", sch, q, cfg, tags={"member_name", f"name:{n}@{pos}"} | {f"{k}={v}" for k, v in cfg.items()})
    # a configured custom scalar at exactly ONE position of the package (nothing else brings its imports along)
    sc_schema = "scalar Date\ninput DI { d: Date }\ninput DLI { ds: [Date!] }\ntype R { d: Date ds: [Date!]! }\ntype Query { r: R v(d: Date): Int vl(ds: [Date!]!): Int vll(dss: [[Date]]): Int i(x: DI): Int il(x: DLI): Int }\n"
    sc_positions = {"variable": "query P($d: Date) { v(d: $d) }", "list_variable": "query P($ds: [Date!]!) { vl(ds: $ds) }", "nested_list_variable": "query P($dss: [[Date]]) { vll(dss: $dss) }",
                    "result": "query P { r { d } }", "list_result": "query P { r { ds } }", "input_field": "query P($x: DI) { i(x: $x) }", "list_input_field": "query P($x: DLI) { il(x: $x) }"}
    sc_cfgs = {"dotted_type": ({"Date": {"type": "datetime.date"}}, {}), "type_parse_serialize": (
        {"Date": {"type": "datetime.date", "parse": ".custom_scalars.parse_date", "serialize": ".custom_scalars.serialize_date"}}, {"custom_scalars.py": SCALARS_PY})}
    for pos, q in sc_positions.items():
        for cn, (scal, fl) in sc_cfgs.items():
            for extra in ({}, {"async_client": False}, {"include_all_inputs": False}):
                opts = dict(extra, scalars=scal)
                if fl:
                    opts["files_to_include"] = ["@custom_scalars.py"]
                add("scalar_position", sc_schema, q + "\n", opts, files=fl, tags={"scalar_position", f"scalar_at:{pos}", f"scalar_cfg:{cn}"} | {f"{k}={v}" for k, v in extra.items()})
    # directories as schema_path / queries_path whose files end without a newline, in a name, a number or a comment
    ends = {"name": "scalar ZLast", "comment": "scalar ZLast\n# trailing comment without newline", "brace": "type ZLast { a: Int }", "directive": "directive @zz(n: Int = 1) on FIELD"}
    for en, tail in ends.items():
        sdir = {"a_first.graphql": corpus.SCHEMA_K.rstrip("\n") + "\n" + tail, "b_second.graphql": "type ZOther { b: Int }", "sub/c_third.gql": "enum ZE { A }"}
        add("dir_schema", sdir, a_all, tags={"directory_input", f"file_ends_with:{en}", "schema_dir"})
    qends = {"name": "fragment QF on User { id name }".replace(" }", "\n}") [:-2] + "\n  name", "brace": "query Q1 { user { id } }", "comment": "query Q1 { user { id } }\n# end"}
    for en, first in {"brace": "query Q1 { user { id } }", "comment": "query Q1 { user { id } }\n# end of file", "number": "query Q1 { nodes { id } w { str5 } user @include(if: true) { id } }"}.items():
        qdir = {"a.graphql": first, "b.graphql": "query Q2 { node { id } }", "sub/c.gql": FR.rstrip("\n")}
        add("dir_queries", corpus.SCHEMA_K, qdir, tags={"directory_input", f"file_ends_with:{en}", "queries_dir"})
    # refusals
    add("anon", corpus.SCHEMA_K, "{ user { id } }\n", expect="refusal", tags={"refusal:anonymous"})
    add("anon2", corpus.SCHEMA_K, "query { user { id } }\n", expect="refusal", tags={"refusal:anonymous"})
    add("anon_plus_named", corpus.SCHEMA_K, "query Named1 { user { id } }\n", tags={"control"})
    for bad in ['@mixin(from: 1, import: "A")', '@mixin(from: ".m")', '@mixin(import: "A")', "@mixin", '@mixin(from: ".m", import: null)', '@mixin(from: ".m", import: ["A"])']:
        add("bad_mixin", corpus.SCHEMA_K, f"query BM {{ user {bad} {{ id }} }}\n", expect="refusal", tags={"refusal:mixin", f"mixin:{bad}"})
    for a, b in (("getUser", "get_user"), ("Client", "client"), ("Enums", "enums"), ("BaseModel", "base_model"), ("Fragments", "fragments"), ("InputTypes", "input_types")):
        add("collide_ops", corpus.SCHEMA_K, f"query {a} {{ user {{ id }} }}\nquery {b} {{ user {{ name }} }}\n{FR}", expect="ParsingError", tags={"refusal:collision", f"collide:{a}/{b}"})
    return cases


from mc.corpus2 import name_catalogue  # noqa: E402


def frag_doc_valid(doc_text):
    from graphql import NoUnusedFragmentsRule, parse, specified_rules, validate
    try:
        return not validate(corpus.schema_k(), parse(doc_text), [r for r in specified_rules if r is not NoUnusedFragmentsRule])
    except Exception:  # noqa
        return False


def evaluate(case):
    import importlib
    import pydantic
    out = {"status": "ok", "problems": [], "files": 0, "models": 0}
    P = out["problems"]
    with genpkg.scratch() as d:
        options = json.loads(json.dumps(case["options"]))
        for k in ("files_to_include",):
            if k in options:
                options[k] = [os.path.join(d, p[1:]) if p.startswith("@") else p for p in options[k]]
        if str(options.get("base_client_file_path", "")).startswith("@"):
            options["base_client_file_path"] = os.path.join(d, options["base_client_file_path"][1:])
        pkgname = options.get("target_package_name")
        try:
            pkg, pdir, stdout = genpkg.generate(d, case["schema"], case["queries"], options, files=case["files"], pkg=pkgname)
        except genpkg.GenError as e:
            from ariadne_codegen.exceptions import CodeGenException
            out["status"] = "raised"
            out["exc_type"] = e.exc_type
            out["is_codegen_exception"] = isinstance(e.exc, CodeGenException)
            out["error"] = str(e)[:600]
            return out
        listing = sorted(f for f in os.listdir(pdir) if f != "__pycache__")
        m = re.search(r"Generated files:\n((?:  .*\n)+)", stdout)
        reported = sorted(l.strip() for l in m.group(1).splitlines()) if m else []
        if reported != listing:
            P.append(("file_list", f"reported {reported} directory {listing}"))
        out["files"] = len(listing)
        for f in listing:
            if f.endswith(".py"):
                try:
                    ast.parse(open(os.path.join(pdir, f)).read())
                except SyntaxError as e:
                    P.append(("syntax_error", f"{f}: {e}"))
        if P and any(c == "syntax_error" for c, _ in P):
            return out
        try:
            mod, mods = genpkg.import_package(d, pkg)
        except BaseException as e:  # noqa
            P.append((f"import_error:{type(e).__name__}", f"{type(e).__name__}: {str(e)[:400]}"))
            return out
        for mname, m_ in mods.items():
            for name, obj in list(vars(m_).items()):
                if isinstance(obj, type) and issubclass(obj, pydantic.BaseModel) and obj.__module__ == m_.__name__:
                    out["models"] += 1
                    if not getattr(obj, "__pydantic_complete__", False):
                        P.append(("model_incomplete", f"{mname}.{name}"))
                    try:
                        obj.model_rebuild(raise_errors=True, force=True)
                        typing.get_type_hints(obj, include_extras=True)
                    except Exception as e:  # noqa
                        P.append(("model_unresolvable", f"{mname}.{name}: {type(e).__name__}: {str(e)[:200]}"))
        init_src = open(os.path.join(pdir, "__init__.py")).read()
        tree = ast.parse(init_src)
        bound = []
        all_names = None
        for node in tree.body:
            if isinstance(node, ast.ImportFrom):
                bound += [a.asname or a.name for a in node.names]
            elif isinstance(node, ast.Import):
                bound += [(a.asname or a.name).split(".")[0] for a in node.names]
            elif isinstance(node, ast.Assign) and any(isinstance(t, ast.Name) and t.id == "__all__" for t in node.targets):
                all_names = [e.value for e in node.value.elts]
        if all_names is None:
            P.append(("init_all", "__init__ defines no __all__"))
        else:
            if len(all_names) != len(set(all_names)):
                dup = sorted({n for n in all_names if all_names.count(n) > 1})
                P.append(("init_all_duplicates", f"{dup}"))
            if set(all_names) != set(bound):
                P.append(("init_all_vs_imports", f"only in __all__: {sorted(set(all_names) - set(bound))}; only imported: {sorted(set(bound) - set(all_names))}"))
            if len(bound) != len(set(bound)):
                dupb = sorted({n for n in bound if bound.count(n) > 1})
                P.append(("init_name_bound_twice", f"{dupb}"))
            for n in all_names:
                if not hasattr(mod, n):
                    P.append(("init_all_missing_attr", n))
        # client class instantiable
        cname = options.get("client_name", "Client")
        if not hasattr(mod, cname):
            P.append(("client_missing", cname))
    return out


def main(tier):
    rep = Report("C04", tier, "exploration")
    genpkg.warm()
    cases = build_cases(tier)
    results = pool.run_cases(evaluate, cases, timeout=600, progress=200)
    stats = {"generated": 0, "refused": 0, "files_checked": 0, "models_checked": 0}
    distinct = set()
    for case, (st, r) in zip(cases, results):
        feats = set(case["tags"]) | {f"label:{case['label']}"}
        desc = {"label": case["label"], "options": case["options"], "queries": (case["queries"] if isinstance(case["queries"], dict) else (case["queries"] or "")[:1500]), "schema_files": case["schema"] if isinstance(case["schema"], dict) else None, "schema": "K" if case["schema"] is corpus.SCHEMA_K else ("B" if case["schema"] is SCHEMA_B else "fixture"), "expect": case["expect"]}
        if rep.triage:
            rep.seen(feats)
        if st != "ok":
            rep.violation("harness_" + st, feats, str(r)[:500], desc)
            continue
        distinct.add(json.dumps([case["label"], case["options"], case["queries"]], sort_keys=True))
        exp = case["expect"]
        if r["status"] == "raised":
            if exp == "ok":
                rep.violation(f"generation_raised:{r['exc_type']}", feats, r["error"], desc)
            elif not r["is_codegen_exception"] or (exp not in ("refusal",) and r["exc_type"] != exp):
                rep.violation(f"refusal_wrong_exception:{r['exc_type']}", feats, f"expected {exp}: {r['error']}", desc)
            else:
                stats["refused"] += 1
            continue
        if exp != "ok":
            rep.violation("refusal_missing", feats, f"expected {exp} but generation succeeded", desc)
        stats["generated"] += 1
        stats["files_checked"] += r["files"]
        stats["models_checked"] += r["models"]
        for clause, detail in r["problems"]:
            rep.violation(clause, feats, detail, desc)
    rep.sample({"label": "A_all", "options": dict(zip(BOOLS, [True, False, True, False, True, True])), "operations": [o[:60] for o in A_OPS]})
    rep.sample({"label": "collide_ops", "queries": "query getUser {...} query get_user {...}", "expect": "ParsingError"})
    return rep.finish({
        "evaluations": len(cases), "distinct_nontrivial": len(distinct),
        "rule": "evaluation = one generation with the real entry point + parse/import/model/__init__/file-list oracles; cases = 64 boolean combinations x 3 input sets, "
                "operation sets of size 0/1/2/all, every single deviation of the non-boolean options on 3 bases, mixins, custom base client, every shape of the 4 documented refusals",
        "exhaustive": True, **stats,
    }, assumptions=["plugins are out of C04's quantifier (C15)", "import in a freshly forked child under a unique package name stands for a fresh interpreter",
                    "reserved names in every naming role are enumerated by C18's generator phase"])


def replay(path):
    rec = json.load(open(path))
    c = rec["case"]
    genpkg.warm()
    for case in build_cases("thorough"):
        cq = case["queries"] if isinstance(case["queries"], dict) else (case["queries"] or "")[:1500]
        if case["label"] == c["label"] and case["options"] == c["options"] and cq == c["queries"] and (c.get("schema_files") is None or case["schema"] == c["schema_files"]):
            st, r = pool.run_forked(evaluate, case)
            print(st, r)
            return 1 if st != "ok" or r["problems"] or (r["status"] == "raised") != (case["expect"] != "ok") else 0
    print("case not found")
    return 1
