"""C08 — fragments and mixins are honoured as reusable base types.

Enumerated: all fragment DAGs over <=3 (quick) / <=4 (thorough) fragments x type conditions x root configurations x every
order of the definitions in the queries file; operation sets where one fragment is spread on its own type in one
operation and must be unpacked in another; @mixin on a field / fragment definition / both / repeated / abstract field.
Oracle: isinstance of the fragment class at every direct same-type spread (fragment without inline fragments),
fragment class alone validates the sub-payload, class exists in the fragments module, module loads in every order,
the mixin class is a direct base of exactly the class generated for the annotated field / fragment.
"""
from __future__ import annotations

import itertools
import json

import httpx
from graphql import NoUnusedFragmentsRule, get_named_type, is_abstract_type, is_object_type, is_union_type, parse, specified_rules, validate

from mc import clients, corpus, corpus2, features, genpkg, pool, refexec
from mc.explorer import Explorer
from mc.report import Report, seed

RULES = [r for r in specified_rules if r is not NoUnusedFragmentsRule]
MIXINS_PY = "class MixinA:\n    def hello(self):\n        return 'a'\n\n\nclass MixinB:\n    pass\n"


def has_inline(fd, frags):
    def rec(ss):
        for s in ss.selections:
            if s.kind == "inline_fragment":
                return True
            if getattr(s, "selection_set", None) and rec(s.selection_set):
                return True
        return False
    return rec(fd.selection_set)


def demanded_spreads(schema, static_t, sel_sets, frags):
    """Fragment names F directly spread in a selection set of static type T, F on exactly T, F without inline fragments,
    and the selection set does not split T into per-type classes (all direct selections are fields or such spreads)."""
    out = []
    # the scope of a position: its selection sets plus those of fragments / inline fragments ON THE SAME TYPE reached from them
    # (a fragment that is unpacked into the class still "directly spreads" the fragments of its own selection set); an inline
    # fragment on a SUPER-type of the position (`user { ... on Node { ...F } }`) opens a selection set evaluated for that super-type
    scope, todo, seen = [], [(ss, static_t.name) for ss in sel_sets], set()
    while todo:
        ss, tname = todo.pop(0)
        if id(ss) in seen:
            continue
        seen.add(id(ss))
        scope.append((ss, tname))
        for s in ss.selections:
            if s.kind == "inline_fragment":
                tc = s.type_condition.name.value if s.type_condition is not None else tname
                tct = schema.get_type(tc)
                if tc == tname:
                    todo.append((s.selection_set, tname))
                elif not s.directives and tct is not None and is_abstract_type(tct) and schema.is_sub_type(tct, static_t):
                    todo.append((s.selection_set, tc))
            elif s.kind == "fragment_spread" and s.name.value in frags and frags[s.name.value].type_condition.name.value == tname and not s.directives:
                todo.append((frags[s.name.value].selection_set, tname))
    per_scope = []
    for ss, tname in scope:
        direct = [x for x in ss.selections if not (x.kind == "inline_fragment" and (x.type_condition is None or x.type_condition.name.value == tname))]
        pure = True
        names = []
        for s in direct:
            if s.kind == "field":
                continue
            if s.kind == "fragment_spread" and s.name.value in frags:
                fd = frags[s.name.value]
                if fd.type_condition.name.value == tname and not has_inline(fd, frags) and not s.directives:
                    names.append(s.name.value)
                    continue
            pure = False
        per_scope.append((tname, pure, names))
    # an abstract position is split into per-type classes as soon as ANY selection set in its scope selects on a sub-type; the statement's
    # demand is then void for the whole position (the fragments are unpacked into the per-type classes)
    whole_pure = all(pure for _, pure, _ in per_scope)
    for tname, pure, names in per_scope:
        if is_object_type(static_t) or (whole_pure and tname == static_t.name):
            out += names
    return out


def pascal(n):
    # (the class that belongs to a fragment is located with the generator's own spelling rule; the spelling is not what is checked)
    from ariadne_codegen.utils import str_to_pascal_case
    return str_to_pascal_case(n)


def evaluate(case):
    import pydantic
    from mc.opcheck import find_method, get_at
    k2 = case.get("schema") == "K2"
    schema = corpus.schema_k2() if k2 else corpus.schema_k()
    out = {"status": "ok", "problems": [], "demands": 0, "responses": 0, "mixin_checks": 0}
    P = out["problems"]
    doc_text = case["doc_text"]
    options = dict(case.get("options") or {})
    files = dict(case.get("files") or {})
    with genpkg.scratch() as d:
        if files:
            options["files_to_include"] = [f"{d}/{f}" for f in files]
        try:
            pkg, pdir, _ = genpkg.generate(d, corpus.SCHEMA_K2 if k2 else corpus.SCHEMA_K, doc_text, options, files=files)
        except genpkg.GenError as e:
            out.update(status="gen_error", error=str(e), error_type=e.exc_type)
            return out
        try:
            mod, mods = genpkg.import_package(d, pkg)
        except BaseException as e:  # noqa
            out.update(status="import_error", error=f"{type(e).__name__}: {str(e)[:300]}", error_type="MRO" if "consistent method resolution" in str(e) else type(e).__name__)
            return out
        adoc = parse(doc_text)
        afrags = {x.name.value: x for x in adoc.definitions if x.kind == "fragment_definition"}
        fmod = mods.get("fragments")
        # every fragment without inline fragments that is directly spread on its own type must be in the fragments module
        state = {}
        for op in [x for x in adoc.definitions if x.kind == "operation_definition"]:
            opname = op.name.value

            def handler(request):
                body = json.loads(request.content)
                res, sdoc = refexec.execute(schema, body["query"], body.get("variables") or {}, state["choose"], operation_name=body.get("operationName"))
                state["res"] = res
                return httpx.Response(200, json={"data": res.data})
            c = clients.make_client(mod.Client, True, handler)
            method = getattr(c, find_method(mod.Client, opname))

            def run(choose):
                state.clear()
                state["choose"] = choose
                try:
                    return ("ok", clients.call(True, method)), state.get("res")
                except BaseException as e:  # noqa
                    return ("exc", e), state.get("res")
            ex = Explorer(run, bound=1, max_runs=60)
            for choices, sizes, (r, res) in ex.run_all():
                if res is None or res.errors or r[0] != "ok":
                    continue  # rejected conformant responses are C01's subject
                out["responses"] += 1
                # walk the AUTHORED operation over the response
                for pos in walk_authored(schema, adoc, opname, res.data):
                    path, static_t, sel_sets, value = pos
                    for fname in demanded_spreads(schema, static_t, sel_sets, afrags):
                        out["demands"] += 1
                        ctx = {"operation": opname, "path": list(path), "fragment": fname, "data": res.data}
                        cls = getattr(fmod, pascal(fname), None) if fmod else None
                        if cls is None:
                            P.append(("fragment_class_missing" + (":union" if is_union_type(static_t) else ""), f"{fname} is spread on its own type at {path} of {opname} but the fragments module has no class {pascal(fname)}", ctx))
                            continue
                        obj = get_at(r[1], path)
                        if obj is None:
                            continue  # the position itself is not exposed: C01's subject
                        if not isinstance(obj, cls):
                            P.append(("not_instance_of_fragment_class", f"object at {path} of {opname} is {type(obj).__name__} (mro {[k.__name__ for k in type(obj).__mro__[:5]]}), not a {cls.__name__}", ctx))
                        try:
                            cls.model_validate(value)
                        except pydantic.ValidationError as e:
                            P.append(("fragment_class_rejects_payload", f"{cls.__name__} rejects {value}: {str(e)[:200]}", ctx))
        # mixins
        for m in case.get("mixins") or []:
            out["mixin_checks"] += 1
            mixin_cls = getattr(mods["mixins"], m["import"])
            expected = set(m["classes"])
            actual = set()
            for mname, mm in mods.items():
                for name, obj in vars(mm).items():
                    if isinstance(obj, type) and issubclass(obj, pydantic.BaseModel) and obj.__module__ == mm.__name__ and mixin_cls in obj.__bases__:
                        actual.add(name)
            if actual != expected:
                P.append(("mixin_bases", f"{m['import']} is a direct base of {sorted(actual)}, expected exactly {sorted(expected)}", {"mixin": m}))
    return out


def walk_authored(schema, doc, opname, data):
    """(path, static named type, selection sets, value) for every object position, using the authored document."""
    from graphql import get_operation_ast
    from graphql.execution.collect_fields import collect_fields
    op = get_operation_ast(doc, opname)
    frags = {x.name.value: x for x in doc.definitions if x.kind == "fragment_definition"}
    out = []

    def sub(path, static_t, sss, value):
        if not isinstance(value, dict):
            return
        out.append((path, static_t, sss, value))
        rt = schema.get_type(value["__typename"]) if is_abstract_type(static_t) and "__typename" in value else static_t
        if rt is None or is_abstract_type(rt):
            return
        grouped = {}
        for ss in sss:
            for k, nodes in collect_fields(schema, frags, {}, rt, ss).items():
                grouped.setdefault(k, []).extend(nodes)
        for k, nodes in grouped.items():
            fn = nodes[0].name.value
            if fn == "__typename" or k not in value:
                continue
            ft = rt.fields[fn].type
            named = get_named_type(ft)
            if not hasattr(named, "fields") and not is_abstract_type(named):
                continue
            kids = [n.selection_set for n in nodes if n.selection_set]

            def desc(p, v):
                if isinstance(v, list):
                    for i, x in enumerate(v):
                        desc(p + (i,), x)
                elif v is not None:
                    sub(p, named, kids, v)
            desc(path + (k,), value[k])
    sub((), schema.get_root_type(op.operation), [op.selection_set], data)
    return out


def build_cases(tier):
    K = corpus.schema_k()
    cases = []
    graph_sets = [(2, ("User", "Node", "Named", "U")), (3, ("User", "Node"))] if tier == "quick" else [(2, ("User", "Node", "Named", "U")), (3, ("User", "Node", "Named")), (4, ("User", "Node"))]
    for nf, ts in graph_sets:
        for g in corpus2.fragment_graphs(nf, ts, subsets=(nf == 3)):
            try:
                if validate(K, parse(g["doc_text"]), RULES):
                    continue
            except Exception:  # noqa
                continue
            variants = [(g["doc_text"], set())]
            import re
            ren = {"1": "Zd", "2": "Zc", "3": "Zb", "4": "Za"}
            variants.append((re.sub(r"\bF([1-4])\b", lambda m: ren[m.group(1)], g["doc_text"]), {"names_reverse_alphabetical"}))
            ren2 = {"1": "frag_one", "2": "Frag_two", "3": "fragThree", "4": "frag_4x"}   # snake_case / mixed spellings of fragment names
            variants.append((re.sub(r"\bF([1-4])\b", lambda m: ren2[m.group(1)], g["doc_text"]), {"names_snake_and_mixed"}))
            for gtext, vtags in variants:
                defs = gtext.strip().split("\n")
                ops = [x for x in defs if x.startswith("query")]
                frs = [x for x in defs if x.startswith("fragment")]
                orders = list(itertools.permutations(frs)) if len(frs) <= 3 else [tuple(frs), tuple(reversed(frs))]
                if tier == "quick" and len(orders) > 2:
                    orders = [orders[0], orders[-1], orders[(seed() + len(cases)) % len(orders)]]
                for oi, order in enumerate(orders):
                    for ops_first in (True, False):
                        if not ops_first and oi > 0 and tier == "quick":
                            continue
                        text = "\n".join((ops + list(order)) if ops_first else (list(order) + ops)) + "\n"
                        if vtags and (oi > 0 or not ops_first):
                            continue
                        cases.append(dict(family="graph", doc_text=text, tags=set(g["tags"]) | vtags | {f"order:{oi}", "ops_first" if ops_first else "ops_last"}))
    # spread ORDER: two fragments (and the operation) spread ordered subsets of the same two leaf fragments, in every combination of orders
    # (the base classes of every generated class must admit one consistent linearisation whatever the authors' spread orders were)
    leafs = {"3": "fragment F3 on User { name }", "4": "fragment F4 on User { kind }"}
    ordered_subsets = [(), ("3",), ("4",), ("3", "4"), ("4", "3")]
    for s1 in ordered_subsets:
        for s2 in ordered_subsets:
            if len(s1) + len(s2) < 3:
                continue
            f1 = "fragment F1 on User { id " + " ".join(f"...F{x}" for x in s1) + " }"
            f2 = "fragment F2 on User { age " + " ".join(f"...F{x}" for x in s2) + " }"
            for root in ("...F1 ...F2", "...F2 ...F1", "...F1 ...F2 ...F3", "...F4 ...F2 ...F1", "...F1 friend { ...F2 }"):
                for ren, vtag in (({}, "names_ascending"), ({"1": "Zd", "2": "Zc", "3": "Zb", "4": "Za"}, "names_reverse_alphabetical"), ({"1": "Mb", "2": "Ma", "3": "Zz", "4": "Aa"}, "names_mixed")):
                    if tier == "quick" and vtag == "names_mixed" and (len(cases) + seed()) % 2:
                        continue
                    text = "\n".join(["query SpreadOrder { user { " + root + " } }", f1, f2, leafs["3"], leafs["4"]]) + "\n"
                    import re as _re
                    text = _re.sub(r"\bF([1-4])\b", lambda m: ren.get(m.group(1), "F" + m.group(1)), text)
                    cases.append(dict(family="graph", doc_text=text, tags={"spread_orders", f"orders:{''.join(s1) or '-'}/{''.join(s2) or '-'}", vtag, "frags:4", "direct_spread", "ftype:User",
                                                                              "opposite_spread_orders" if (s1, s2) in ((("3", "4"), ("4", "3")), (("4", "3"), ("3", "4"))) else "compatible_spread_orders"}))
    # one fragment used both ways
    shared = [
        ("FNode_same_and_subtype", "fragment F on Node { id }", ["query One { user { ...F } }", "query Two { node { ...F } }"]),
        ("FNode_same_and_union_member", "fragment F on Node { id }", ["query One { u { ... on User { ...F } } }", "query Two { node { ...F } }"]),
        ("FUser_object_under_interface", "fragment F on User { id name }", ["query One { user { ...F } }", "query Two { node { ...F } }"]),
        ("FUser_object_under_union", "fragment F on User { id name }", ["query One { userReq { ...F friend { ...F } } }", "query Two { u { ...F } }"]),
        ("FNamed_interface_under_interface", "fragment F on Named { name }", ["query One { named { ...F } }", "query Two { node { ...F } }"]),
        ("FUser_with_inline_and_plain", "fragment F on User { id }\nfragment G on User { name ... on Named { id } }", ["query One { user { ...F ...G } }", "query Two { user { ...G } }"]),
        ("Full_unpacked_spreads_Core", "fragment Core on User { id name }\nfragment Full on User { ...Core ... on User { age } }", ["query One { user { ...Full } }", "query Two { userReq { ...Full friend { ...Core } } }"]),
        ("Card_spreads_Full_spreads_Core", "fragment Core on User { id name }\nfragment Full on User { ...Core ... on User { age } }\nfragment Card on User { ...Full kind }", ["query One { user { ...Card } }"]),
        ("Inline_same_type_spreads_Core", "fragment Core on User { id name }", ["query One { user { ... on User { ...Core age } } }"]),
        ("FNode_only_unpacked", "fragment F on Node { id }", ["query One { user { ...F } }"]),
        ("FNode_same_only", "fragment F on Node { id }", ["query Two { node { ...F } nodes { ...F } }"]),
        ("FUser_in_list_and_nested", "fragment F on User { id friend { id } }", ["query One { user { friends { ...F } friend { ...F } } }"]),
    ]
    for label, frs, ops in shared:
        for r in range(1, len(ops) + 1):
            for sub_ops in itertools.combinations(ops, r):
                for order in ((frs,) + sub_ops, sub_ops + (frs,)):
                    cases.append(dict(family="shared", doc_text="\n".join(order) + "\n", tags={f"shared:{label}", f"nops:{len(sub_ops)}"}))
    # typed spread matrix over the second schema family (interfaces implementing interfaces, unions of implementers)
    for o in corpus.k2_matrix():
        cases.append(dict(family="k2matrix", schema="K2", doc_text=o.doc_text, tags=set(t for t in o.tags if t != "family:K2")))
    # mixins
    mx = [
        ("field", 'query M { user @mixin(from: ".mixins", import: "MixinA") { id } }', [("MixinA", ["MUser"])]),
        ("nested_field", 'query M { user { id friend @mixin(from: ".mixins", import: "MixinB") { id } } }', [("MixinB", ["MUserFriend"])]),
        ("two_on_one_field", 'query M { user @mixin(from: ".mixins", import: "MixinA") @mixin(from: ".mixins", import: "MixinB") { id } }', [("MixinA", ["MUser"]), ("MixinB", ["MUser"])]),
        ("fragment_def", 'query M { user { ...F } }\nfragment F on User @mixin(from: ".mixins", import: "MixinA") { id }', [("MixinA", ["F"])]),
        ("field_and_fragment", 'query M { user @mixin(from: ".mixins", import: "MixinB") { ...F } }\nfragment F on User @mixin(from: ".mixins", import: "MixinA") { id }', [("MixinA", ["F"]), ("MixinB", ["MUser"])]),
        ("two_fields_same_mixin", 'query M { user @mixin(from: ".mixins", import: "MixinA") { id } userReq @mixin(from: ".mixins", import: "MixinA") { id } }', [("MixinA", ["MUser", "MUserReq"])]),
        ("abstract_field", 'query M { node @mixin(from: ".mixins", import: "MixinA") { id ... on User { name } } }', [("MixinA", ["MNodeNode", "MNodeUser"])]),
        ("list_field", 'query M { nodes @mixin(from: ".mixins", import: "MixinA") { id } user { id } }', [("MixinA", ["MNodes"])]),
        ("two_ops", 'query M { user @mixin(from: ".mixins", import: "MixinA") { id } }\nquery N { user { id } }', [("MixinA", ["MUser"])]),
        ("fragment_def_used_twice", 'query M { user { ...F } userReq { ...F name } }\nfragment F on User @mixin(from: ".mixins", import: "MixinA") { id }', [("MixinA", ["F"])]),
    ]
    # every sequence (<=3) of directives containing at least one @mixin, on a field, a nested field, an abstract field and a fragment definition
    D = {"mA": '@mixin(from: ".mixins", import: "MixinA")', "mB": '@mixin(from: ".mixins", import: "MixinB")', "inc": "@include(if: true)", "skp": "@skip(if: false)", "tag": '@tag(name: "x")'}
    sites = {
        "field": ("query M {{ user {d} {{ id }} }}", ["MUser"], ("mA", "mB", "inc", "skp", "tag")),
        "nested_field": ("query M {{ user {{ id friend {d} {{ id }} }} }}", ["MUserFriend"], ("mA", "mB", "inc", "skp", "tag")),
        "abstract_field": ("query M {{ node {d} {{ id ... on User {{ name }} }} }}", ["MNodeNode", "MNodeUser"], ("mA", "mB", "inc", "tag")),
        "fragment_def": ("query M {{ user {{ ...F }} }}\nfragment F on User {d} {{ id }}", ["F"], ("mA", "mB", "tag")),
    }
    for site, (tmpl, classes, allowed) in sites.items():
        for n in (1, 2, 3):
            for seq in itertools.permutations(allowed, n):
                if not any(x in ("mA", "mB") for x in seq):
                    continue
                if tier == "quick" and n == 3 and site not in ("field", "fragment_def"):
                    continue
                q = tmpl.format(d=" ".join(D[x] for x in seq))
                exp = [(imp, classes) for key, imp in (("mA", "MixinA"), ("mB", "MixinB")) if key in seq]
                absent = [imp for key, imp in (("mA", "MixinA"), ("mB", "MixinB")) if key not in seq]
                mx.append((f"seq:{site}:{'>'.join(seq)}", q, exp + [(imp, []) for imp in absent]))
    for label, q, exp in mx:
        cases.append(dict(family="mixin", doc_text=q + "\n", files={"mixins.py": MIXINS_PY}, mixins=[{"import": i, "classes": cl} for i, cl in exp], tags={f"mixin:{label}"}))
    return cases


def main(tier):
    rep = Report("C08", tier, "exploration")
    genpkg.warm()
    K = corpus.schema_k()
    cases = build_cases(tier)
    results = pool.run_cases(evaluate, cases, timeout=300, progress=500)
    stats = {"cases": len(cases), "generation_failures": 0, "demands": 0, "responses": 0, "mixin_checks": 0}
    fam = {}
    distinct = set()
    for case, (st, r) in zip(cases, results):
        fam[case["family"]] = fam.get(case["family"], 0) + 1
        desc = {"family": case["family"], "query": case["doc_text"]}
        feats = None

        def F():
            nonlocal feats
            if feats is None:
                feats = set(case["tags"]) | features.op_features(corpus.schema_k2() if case.get("schema") == "K2" else K, case["doc_text"])
            return feats
        if rep.triage:
            rep.seen(F())
        if st != "ok":
            rep.violation("harness_" + st, F(), str(r)[:500], desc)
            continue
        if r["status"] == "gen_error" and case["family"] == "k2matrix":
            stats["generation_failures"] += 1   # crashes of the generator on this family are C01's findings (gen_error:AttributeError|...)
            continue
        if r["status"] != "ok":
            stats["generation_failures"] += 1
            rep.violation(f'{r["status"]}:{r.get("error_type")}', F(), r["error"], desc)
            continue
        for k in ("demands", "responses", "mixin_checks"):
            stats[k] += r[k]
        if r["demands"] or r["mixin_checks"]:
            distinct.add(case["doc_text"])
        for clause, detail, ctx in r["problems"]:
            rep.violation(clause, F(), detail, dict(desc, **ctx))
        if len(rep.samples) < 4 and r["demands"] > 1:
            rep.sample({"family": case["family"], "queries_file": case["doc_text"], "isinstance_demands_checked": r["demands"]})
    return rep.finish({
        "evaluations": stats["demands"] + stats["mixin_checks"] + len(cases),
        "distinct_nontrivial": len(distinct),
        "rule": "case = one queries file (fragment DAG x type conditions x root configuration x definition order, shared-fragment operation sets, mixin placements) generated and imported; "
                "evaluation = one (position, fragment) isinstance/validate demand on an explored response, one mixin direct-base comparison, or one load check; distinct = files with at least one demand",
        "exhaustive": True, "cases_by_family": fam, **stats,
    }, assumptions=["literal reading of the statement: demand only where the fragment has no inline fragment at any depth, is spread directly (no directive) in a selection set whose static type equals "
                    "the fragment's type condition, and that selection set is not split into per-type classes by other type conditions"])


def replay(path):
    rec = json.load(open(path))
    c = rec["case"]
    genpkg.warm()
    for case in build_cases("thorough"):
        if case["doc_text"] == c["query"]:
            st, r = pool.run_forked(evaluate, case)
            print(st, r if st != "ok" else {k: v for k, v in r.items() if k != "problems"})
            for p in (r or {}).get("problems", [])[:5]:
                print("  ", p[:2])
            bad = st != "ok" or r["status"] != "ok" or any(p[0] == rec["clause"] for p in r["problems"])
            return 1 if bad else 0
    print("case not found")
    return 1
