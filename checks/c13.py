"""C13 — subscriptions follow graphql-transport-ws for every frame sequence.

TLC explores models/GqlTransportWs.tla (client side of the protocol, written from the statement) for all
server frame sequences up to length N and checks the protocol invariants; the complete set of reachable
states (hist is a history variable: one state per frame sequence) is dumped and EVERY state is replayed
against the implementation (bundled async clients, OpenTelemetry variants, generated subscription method)
through a scripted fake connection.  A loopback `websockets` server binds the fake to the real library.
"""
from __future__ import annotations

import asyncio
import json
import os
import re
import shutil
import subprocess
import sys
import time

from mc import clients, genpkg, pool
from mc.report import Report, ROOT

MODEL_DIR = os.path.join(ROOT, "models")
OPID = "fixed-op-id"

SCHEMA = ("scalar Stamp\ntype Query { a(at: Stamp): Int }\ntype Subscription { tick(n: Int, f: In, query: String, data: Int, at: Stamp!): Tick! }\ntype Tick { tick: Int! }\n"
          "input In { someValue: Int other: String }\n")
QUERY = "subscription Tick($n: Int, $f: In, $query: String, $data: Int, $at: Stamp!) { tick(n: $n, f: $f, query: $query, data: $data, at: $at) { tick } }\n"
# the generated packages also contain an operation BEFORE the subscription that uses the same configured scalar
GEN_QUERIES = "query First($at: Stamp!) { a(at: $at) }\n" + QUERY
STAMP_MOD = "def to_epoch(value):\n    return int(value.timestamp())\n"
GEN_AT = __import__("datetime").datetime.fromtimestamp(86400, tz=__import__("datetime").timezone.utc)
GEN_SCALARS = {"scalars": {"Stamp": {"type": "datetime.datetime", "serialize": ".stamp_mod.to_epoch"}}}
D1, D2 = {"tick": {"tick": 1}}, {"tick": {"tick": 2}}

WIRE = {
    "ack": json.dumps({"type": "connection_ack"}),
    "next1": json.dumps({"type": "next", "id": OPID, "payload": {"data": D1}}),
    "next2": json.dumps({"type": "next", "id": OPID, "payload": {"data": D2}}),
    "ping": json.dumps({"type": "ping"}),
    "pong": json.dumps({"type": "pong"}),
    "complete": json.dumps({"type": "complete", "id": OPID}),
    "error": json.dumps({"type": "error", "id": OPID, "payload": [{"message": "boom", "path": ["tick"]}]}),
    "nonjson": "this is {not json",
    "unknown": json.dumps({"type": "bogus_type"}),
    "missing": json.dumps({"payload": {"data": D1}}),
    "nextnodata": json.dumps({"type": "next", "id": OPID, "payload": {"errors": []}}),
}
PAYLOAD = {"next1": D1, "next2": D2}
# frames outside the protocol model: no reference expectation, only "the OpenTelemetry variant behaves identically" (differential)
WIRE_X = {
    "next_null_data_with_errors": json.dumps({"type": "next", "id": OPID, "payload": {"data": None, "errors": [{"message": "partial"}]}}),
    "next_data_and_errors": json.dumps({"type": "next", "id": OPID, "payload": {"data": D1, "errors": [{"message": "partial"}]}}),
    "next_null_data": json.dumps({"type": "next", "id": OPID, "payload": {"data": None}}),
    "next_other_id": json.dumps({"type": "next", "id": "someone-else", "payload": {"data": D2}}),
    "next_extensions": json.dumps({"type": "next", "id": OPID, "payload": {"data": D1, "extensions": {"t": 1}}}),
    "next_no_payload": json.dumps({"type": "next", "id": OPID}),
    "complete_other_id": json.dumps({"type": "complete", "id": "someone-else"}),
    "error_empty_list": json.dumps({"type": "error", "id": OPID, "payload": []}),
    "error_not_list": json.dumps({"type": "error", "id": OPID, "payload": {"message": "x"}}),
    "error_no_payload": json.dumps({"type": "error", "id": OPID}),
    "ping_payload": json.dumps({"type": "ping", "payload": {"a": 1}}),
    "pong_payload": json.dumps({"type": "pong", "payload": {"a": 1}}),
    "ack_again": json.dumps({"type": "connection_ack", "payload": {"x": 1}}),
    "type_null": json.dumps({"type": None}),
    "json_array": "[]",
    "json_string": '"next"',
    "empty_text": "",
    "bytes_frame": b'{"type": "ping"}',
}
WIRE.update(WIRE_X)


# ------------------------------------------------------------------ TLC
def run_tlc(n, workdir):
    os.makedirs(workdir, exist_ok=True)
    shutil.copy(os.path.join(MODEL_DIR, "GqlTransportWs.tla"), workdir)
    cfg = open(os.path.join(MODEL_DIR, "GqlTransportWs.cfg")).read()
    cfg = re.sub(r"CONSTANT N = \d+", f"CONSTANT N = {n}", cfg)
    open(os.path.join(workdir, "GqlTransportWs.cfg"), "w").write(cfg)
    cmd = ["tlc", "-workers", "4", "-noGenerateSpecTE", "-deadlock", "-metadir", os.path.join(workdir, "meta"),
           "-dump", os.path.join(workdir, "states"), "GqlTransportWs"]
    env = dict(os.environ, JAVA_TOOL_OPTIONS=f"-Djava.io.tmpdir={workdir}")
    r = subprocess.run(cmd, cwd=workdir, capture_output=True, text=True, timeout=3600, env=env)
    out = r.stdout + r.stderr
    m = re.search(r"(\d+) states generated, (\d+) distinct states found", out)
    ok = "Model checking completed. No error has been found." in out
    return ok, out, (int(m.group(1)), int(m.group(2))) if m else (0, 0)


def parse_dump(path):
    states = []
    cur = None
    for line in open(path):
        line = line.strip()
        if line.startswith("State "):
            cur = {}
            states.append(cur)
        elif line.startswith("/\\"):
            k, v = line[2:].split("=", 1)
            v = v.strip()
            if v.startswith("<<"):
                val = re.findall(r'"([^"]*)"', v)
            else:
                val = v.strip('"')
            cur[k.strip()] = val
    return states


# ------------------------------------------------------------------ fake connection
class EndOfScript(Exception):
    pass


class FakeClosed(Exception):
    pass


class FakeWS:
    def __init__(self, frames):
        self.frames = list(frames)
        self.sent = []
        self.closed = False
        self.delivered = 0

    async def send(self, msg):
        await asyncio.sleep(0)
        if self.closed:
            raise FakeClosed("send on closed connection")
        self.sent.append(msg)

    def _next(self):
        if self.closed:
            raise FakeClosed()
        if not self.frames:
            raise EndOfScript()
        f = self.frames.pop(0)
        self.delivered += 1
        if f == "close":
            self.closed = True
            raise FakeClosed()
        return WIRE[f]

    async def recv(self):
        await asyncio.sleep(0)
        return self._next()

    def __aiter__(self):
        return self

    async def __anext__(self):
        await asyncio.sleep(0)
        try:
            return self._next()
        except FakeClosed:
            raise StopAsyncIteration

    async def close(self, *a, **k):
        await asyncio.sleep(0)
        self.closed = True


class FakeConnect:
    def __init__(self, frames):
        self.ws = FakeWS(frames)
        self.calls = []

    def __call__(self, *args, **kwargs):
        self.calls.append((args, kwargs))
        outer = self

        class CM:
            async def __aenter__(self_):
                return outer.ws

            async def __aexit__(self_, *exc):
                outer.ws.closed = True
                return False
        return CM()


def classify_sent(msg):
    try:
        d = json.loads(msg)
    except Exception:  # noqa
        return "garbage", None
    t = d.get("type")
    return {"connection_init": "init", "subscribe": "subscribe", "pong": "pong"}.get(t, f"other:{t}"), d


async def drive(agen_factory, fc):
    """Run the subscription iterator to the end of the script; return (yielded, outcome, exc)."""
    yielded = []
    try:
        async for item in agen_factory():
            yielded.append(item)
        return yielded, "Done", None
    except EndOfScript:
        return yielded, "Running", None
    except BaseException as e:  # noqa
        name = type(e).__name__
        out = {"GraphQLClientInvalidMessageFormat": "InvalidMessage", "GraphQLClientGraphQLMultiError": "GraphQLError"}.get(name, f"other:{name}")
        return yielded, out, e


# ------------------------------------------------------------------ variants
def IDENT(x):
    return x


_SHARED_HTTP = []


def shared_http():
    """One httpx.AsyncClient per worker process (building one costs ~30 ms of TLS set-up and the websocket path never touches it)."""
    if not _SHARED_HTTP:
        import httpx
        _SHARED_HTTP.append(httpx.AsyncClient())
    return _SHARED_HTTP[0]


def variants(pkg_root, pkg_names):
    """name -> (module to patch ws_connect in, factory(fc, cfg) -> async generator factory, payload decoder)"""
    out = {}
    for kind, tv in (("async", "none"), ("async_ot", "none"), ("async_ot", "stub"), ("async_ot", "noop")):
        modname, clsname, _, _ = clients.BUNDLED[kind]
        import importlib
        mod = importlib.import_module(modname)
        cls = getattr(mod, clsname)

        def mk(fc, cfg, cls=cls, kind=kind, tv=tv):
            c = cls(ws_url="ws://verif.invalid/ws", ws_headers=cfg.get("ws_headers"), ws_origin=cfg.get("ws_origin"),
                    ws_connection_init_payload=cfg.get("init_payload"), http_client=shared_http(), **clients.tracer_kwargs(kind, tv))
            kw = dict(cfg.get("call_kwargs") or {})
            v = cfg.get("variables")
            if callable(v):
                v = v(clients.dep_module("base_model").UNSET)
            if isinstance(v, dict) and "product" in str(cfg.get("label", "")) or (isinstance(v, dict) and cfg.get("wire_variables") is not None):
                v = dict(v, at=86400)
            opn = cfg.get("operation_name", "Tick")
            if opn == "<omitted>":
                return lambda: c.execute_ws(query=QUERY, variables=v, **kw)
            return lambda: c.execute_ws(query=QUERY, operation_name=opn, variables=v, **kw)
        out[f"bundled:{kind}/{tv}"] = (mod, mk, IDENT)
    if pkg_root:
        for label, pkg, kind, tv in pkg_names:
            m, mods = genpkg.import_package(pkg_root, pkg)
            base = mods[clients.BUNDLED[kind][0].rsplit(".", 1)[1]]

            def mk(fc, cfg, m=m, kind=kind, tv=tv):
                c = m.Client(ws_url="ws://verif.invalid/ws", ws_headers=cfg.get("ws_headers"), ws_origin=cfg.get("ws_origin"),
                             ws_connection_init_payload=cfg.get("init_payload"), http_client=shared_http(), **clients.tracer_kwargs(kind, tv))
                gv = cfg.get("gen_kwargs") or {}
                gv = dict(gv(m) if callable(gv) else gv)
                gv.setdefault("at", GEN_AT)   # required configured-scalar variable of the generated method (serialised to 86400)
                return lambda: c.tick(**gv, **(cfg.get("call_kwargs") or {}))
            if label.endswith("+shorter"):
                # ShorterResults: the method yields the single top-level field instead of the wrapper model
                out[label] = (base, mk, lambda x: {"tick": x.model_dump(by_alias=True, mode="json")})
            else:
                out[label] = (base, mk, lambda x: x.model_dump(by_alias=True, mode="json"))
    return out


def to_wire(v, unset):
    import pydantic
    if isinstance(v, pydantic.BaseModel):
        return v.model_dump(by_alias=True, exclude_unset=True, mode="json")
    if isinstance(v, list):
        return [to_wire(x, unset) for x in v]
    return v


def replay_state(variant, st, cfg, loop):
    """Replay one model state (frame sequence) against one implementation variant.  Returns list of problems."""
    mod, mk, decode = variant
    variant_is_bundled = decode is IDENT   # generated methods always pass the operation name
    fc = FakeConnect(st["hist"])
    old = mod.ws_connect
    mod.ws_connect = fc
    uuid_mod = sys.modules[mod.__name__]
    old_uuid = getattr(uuid_mod, "uuid4", None)
    uuid_mod.uuid4 = lambda: OPID
    try:
        yielded, outcome, exc = loop.run_until_complete(drive(mk(fc, cfg), fc))
    finally:
        mod.ws_connect = old
        if old_uuid is not None:
            uuid_mod.uuid4 = old_uuid
    probs = []
    kinds = [classify_sent(m) for m in fc.ws.sent]
    if [k for k, _ in kinds] != st["sent"]:
        probs.append(("frames_sent", f"sent {[k for k, _ in kinds]} expected {st['sent']}"))
    if outcome != st["outcome"]:
        probs.append(("outcome", f"outcome {outcome} ({exc!r}) expected {st['outcome']}"))
    try:
        got = [decode(y) for y in yielded]
    except Exception as e:  # noqa
        got = [f"undecodable {e!r}"]
    want = [PAYLOAD[y] for y in st["yielded"]]
    if got != want:
        probs.append(("yielded", f"yielded {got} expected {want}"))
    # opening and handshake contents
    if len(fc.calls) != 1:
        probs.append(("connect_calls", f"{len(fc.calls)} connect calls"))
    else:
        args, kw = fc.calls[0]
        if list(kw.get("subprotocols") or []) != ["graphql-transport-ws"]:
            probs.append(("subprotocol", f"subprotocols={kw.get('subprotocols')!r}"))
        want_headers = dict(cfg.get("ws_headers") or {})
        want_headers.update((cfg.get("call_kwargs") or {}).get("extra_headers", {}))
        got_headers = kw.get("extra_headers", kw.get("additional_headers"))
        if dict(got_headers or {}) != want_headers:
            probs.append(("headers", f"headers {got_headers!r} expected {want_headers!r}"))
        if kw.get("origin") != cfg.get("ws_origin"):
            probs.append(("origin", f"origin {kw.get('origin')!r} expected {cfg.get('ws_origin')!r}"))
        if args[:1] != ("ws://verif.invalid/ws",):
            probs.append(("url", f"connect args {args!r}"))
    for k, d in kinds:
        if k == "init":
            want_init = {"type": "connection_init"}
            if cfg.get("init_payload"):
                want_init["payload"] = cfg["init_payload"]
            if d != want_init:
                probs.append(("init_frame", f"{d!r} expected {want_init!r}"))
        elif k == "subscribe":
            p = d.get("payload") or {}
            want_opname = cfg.get("operation_name", "Tick") if variant_is_bundled else "Tick"
            want_opname = None if want_opname == "<omitted>" else want_opname
            if not isinstance(d.get("id"), str) or not d.get("id"):
                probs.append(("subscribe_frame", f"id {d.get('id')!r}"))
            if " ".join((p.get("query") or "").split()) != " ".join(QUERY.split()) or p.get("operationName") != want_opname:
                probs.append(("subscribe_frame", f"query/operationName {p.get('query')!r} {p.get('operationName')!r}"))
            wv = cfg.get("wire_variables")
            if not variant_is_bundled:
                wv = dict(wv or {}, at=86400)
            elif cfg.get("variables") is not None or wv:
                wv = dict(wv or {}, at=86400)
            if (p.get("variables") or {}) != (wv or {}):
                probs.append(("subscribe_variables", f"variables {p.get('variables')!r} expected {wv!r}"))
            if set(d) - {"id", "type", "payload"} or set(p) - {"query", "operationName", "variables"}:
                probs.append(("subscribe_frame", f"extra keys {sorted(d)} {sorted(p)}"))
        elif k == "pong":
            if d != {"type": "pong"} and set(d) - {"type", "payload"}:
                probs.append(("pong_frame", f"{d!r}"))
    if outcome == "GraphQLError" and exc is not None:
        msgs = [e.message for e in getattr(exc, "errors", [])]
        if msgs != ["boom"]:
            probs.append(("error_content", f"errors {msgs!r}"))
    return probs


CONFIGS = [
    ("default", {}),
    ("operation_name_none", {"operation_name": None}),
    ("operation_name_omitted", {"operation_name": "<omitted>"}),
    ("init_payload+headers+origin", {"init_payload": {"token": "t0k"}, "ws_headers": {"A": "1", "B": "2"}, "ws_origin": "http://origin.example",
                                     "call_kwargs": {"extra_headers": {"B": "3", "C": "4"}}}),
]


def variable_configs(unset, Model):
    """(label, bundled variables, generated kwargs fn, wire variables)"""
    return [
        ("vars_scalar", {"n": 5}, {"n": 5}, {"n": 5}),
        ("vars_named_like_method_locals", {"query": "python", "data": 9}, {"query": "python", "data": 9}, {"query": "python", "data": 9}),
        ("vars_unset_and_model", lambda u: {"n": u, "f": Model(some_value=3)}, lambda m: {"f": m.In(some_value=3)}, {"f": {"someValue": 3}}),
        ("vars_model_explicit_none", {"n": 0, "f": Model(some_value=None, other="x")}, lambda m: {"n": 0, "f": m.In(some_value=None, other="x")},
         {"n": 0, "f": {"someValue": None, "other": "x"}}),
    ]


def replay_sequence(variant, st, loop):
    """Two subscriptions in a row on ONE client object: the first with per-call extra_headers, the second without.
    The second connection must be opened with the configured headers only."""
    mod, mk, decode = variant
    probs = []
    cfg1 = {"ws_headers": {"A": "1", "B": "2"}, "ws_origin": None, "call_kwargs": {"extra_headers": {"B": "3", "C": "4"}}}
    holder = {}
    old = mod.ws_connect
    calls = []

    def connect(*a, **k):
        fc = FakeConnect(st["hist"])
        calls.append((a, {kk: (dict(vv) if isinstance(vv, dict) else vv) for kk, vv in k.items()}))
        holder["fc"] = fc
        return fc(*a, **k)
    mod.ws_connect = connect
    try:
        factory1 = mk(None, cfg1)
        # reuse the same client object: mk() builds a closure over one client; build the second call from the same closure's client
        client = factory1.__closure__[0].cell_contents if factory1.__closure__ else None
        loop.run_until_complete(drive(factory1, None))
        cfg2 = dict(cfg1, call_kwargs={})
        if client is not None and hasattr(client, "execute_ws") and not hasattr(client, "tick"):
            f2 = lambda: client.execute_ws(query=QUERY, operation_name="Tick", variables=None)
        elif client is not None:
            f2 = lambda: client.tick(at=GEN_AT)
        else:
            return probs
        loop.run_until_complete(drive(f2, None))
    finally:
        mod.ws_connect = old
    if len(calls) == 2:
        h2 = calls[1][1].get("extra_headers", calls[1][1].get("additional_headers"))
        if dict(h2 or {}) != {"A": "1", "B": "2"}:
            probs.append(("headers_leak_between_calls", f"second subscription opened with headers {h2!r}, configured {{'A': '1', 'B': '2'}}"))
        h1 = calls[0][1].get("extra_headers", calls[0][1].get("additional_headers"))
        if dict(h1 or {}) != {"A": "1", "B": "3", "C": "4"}:
            probs.append(("headers", f"first subscription opened with headers {h1!r}"))
    else:
        probs.append(("connect_calls", f"{len(calls)} connect calls for two subscriptions"))
    return probs


def differential(vs, loop, part=0, parts=1):
    """Frame sequences over the extended alphabet x variable configurations: every bundled variant must behave exactly like the plain client
    (frames sent, byte for byte after JSON decoding; outcome; exception type and message; values yielded)."""
    import itertools
    probs, runs = [], 0
    alphabet = list(WIRE_X) + ["next1", "ping"]
    seqs = [("ack", a, "complete") for a in alphabet] + [("ack", a, b, "complete") for a, b in itertools.product(alphabet, repeat=2)] + [(a,) for a in WIRE_X]
    unset = clients.dep_module("base_model").UNSET
    var_cfgs = [("vars_scalar", {"n": 5}), ("vars_all_unset", {"n": unset, "data": unset}), ("vars_none", None), ("vars_empty", {})]
    bundled = {k: v for k, v in vs.items() if k.startswith("bundled:")}
    ref_name = "bundled:async/none"
    for vl, variables in var_cfgs:
        for si, seq in enumerate(seqs if vl == "vars_scalar" else seqs[:len(alphabet)]):
            if si % parts != part:
                continue
            obs = {}
            for vname, (mod, mk, decode) in bundled.items():
                fc = FakeConnect(list(seq))
                old = mod.ws_connect
                mod.ws_connect = fc
                umod = sys.modules[mod.__name__]
                old_uuid = getattr(umod, "uuid4", None)
                umod.uuid4 = lambda: OPID
                try:
                    yielded, outcome, exc = loop.run_until_complete(drive(mk(fc, {"variables": variables}), fc))
                finally:
                    mod.ws_connect = old
                    if old_uuid is not None:
                        umod.uuid4 = old_uuid
                sent = []
                for m in fc.ws.sent:
                    try:
                        sent.append(json.loads(m))
                    except Exception:  # noqa
                        sent.append(repr(m))
                obs[vname] = (sent, outcome, type(exc).__name__ if exc else None, yielded)
                runs += 1
            for vname, o in obs.items():
                if o != obs[ref_name]:
                    probs.append(("variants_differ", vname, vl, list(seq), f"{vname}: sent/outcome/exception/yielded {json.dumps(o, default=str)[:300]} but {ref_name}: {json.dumps(obs[ref_name], default=str)[:300]}"))
    return probs, runs


CONC_SCRIPTS = [
    ("ack", "next1", "complete", "next2"),
    ("ack", "ping", "next2", "next1", "complete", "next2"),
    ("ack", "next1", "error", "next2"),
    ("ack", "next2", "unknown", "next1"),
    ("ping",),
]


def concurrent_subscriptions(vs, bound, part=0, parts=1):
    """Two subscription iterators alive at once on ONE client object, each on its own scripted connection: every interleaving of the
    two tasks with at most `bound` deviations from FIFO scheduling (virtual loop; scheduling points are the awaits of send / recv /
    close and the connection context manager).  Each iterator must behave exactly as the protocol model says for ITS frame sequence
    (frames after the terminating frame must not be read: scripts carry a trailing `next`)."""
    import itertools
    from mc.explorer import Explorer
    from mc.vloop import VirtualLoop
    probs, runs, scheds, states = [], 0, 0, set()
    pairs = list(itertools.product(range(len(CONC_SCRIPTS)), repeat=2))
    work = [(vname, pa) for vname in sorted(vs) for pa in pairs]
    for wi, (vname, (ia, ib)) in enumerate(work):
        if wi % parts != part:
            continue
        mod, mk, decode = vs[vname]
        scripts = {"A": CONC_SCRIPTS[ia], "B": CONC_SCRIPTS[ib]}
        seen_problem = set()

        def run(choose):
            conns = {}

            def connect(*a, **k):
                h = k.get("extra_headers") or k.get("additional_headers") or {}
                tag = dict(h).get("X-Sub", "?")
                fc = FakeConnect(list(scripts.get(tag, ())))
                conns[tag] = fc
                return fc(*a, **k)
            old = mod.ws_connect
            mod.ws_connect = connect
            umod = sys.modules[mod.__name__]
            old_uuid = getattr(umod, "uuid4", None)
            umod.uuid4 = lambda: OPID
            loop = VirtualLoop()
            try:
                fa = mk(None, {"call_kwargs": {"extra_headers": {"X-Sub": "A"}}})
                client = fa.__closure__[0].cell_contents
                if hasattr(client, "tick"):
                    fb = lambda: client.tick(at=GEN_AT, extra_headers={"X-Sub": "B"})
                else:
                    fb = lambda: client.execute_ws(query=QUERY, operation_name="Tick", variables=None, extra_headers={"X-Sub": "B"})
                res = loop.run_controlled([drive(fa, None), drive(fb, None)], choose, max_steps=5000)
            finally:
                mod.ws_connect = old
                if old_uuid is not None:
                    umod.uuid4 = old_uuid
                loop.close()
            obs = {}
            for tag, (st, r) in zip("AB", res):
                if st != "ok":
                    obs[tag] = ("harness_exc", repr(r), [], [])
                    continue
                yielded, outcome, exc = r
                try:
                    got = [decode(y) for y in yielded]
                except Exception as e:  # noqa
                    got = [f"undecodable {e!r}"]
                fc = conns.get(tag)
                sent = [classify_sent(m)[0] for m in fc.ws.sent] if fc else None
                obs[tag] = (outcome, repr(exc) if exc else None, got, sent)
            return obs

        def on_result(choices, sizes, obs):
            nonlocal runs, scheds
            runs += 1
            scheds += 1
            states.add((vname, ia, ib, json.dumps(obs, default=str, sort_keys=True)))
            for tag in "AB":
                sent, yielded, outcome = expected_for(scripts[tag])
                want = (outcome, list(yielded), sent)
                o = obs[tag]
                got = (o[0], o[2], o[3])
                key = (tag, json.dumps(got, default=str, sort_keys=True))
                if got != want and key not in seen_problem:
                    seen_problem.add(key)
                    probs.append(("concurrent_subscription_differs", vname, f"concurrent:{tag}", [list(scripts["A"]), list(scripts["B"])],
                                  f"iterator {tag} (frames {list(scripts[tag])}) run concurrently with another subscription on the same client, schedule {list(choices)}: "
                                  f"outcome/yielded/sent {got!r} ({o[1]}), alone and per the model {want!r}"))
        ex = Explorer(run, bound=bound, max_runs=100000)
        ex.run_all(on_result)
        if ex.capped:
            probs.append(("harness_capped", vname, "concurrent", [list(scripts["A"]), list(scripts["B"])], "schedule cap hit"))
    return probs, runs, len(states)


def worker(case):
    pkg_root, pkg_names, states, cfg_mode = case
    loop = asyncio.new_event_loop()
    asyncio.set_event_loop(loop)
    vs = variants(pkg_root, pkg_names)
    res = {"replays": 0, "problems": []}
    cfgs = [dict(c, label=l) for l, c in CONFIGS[:1]]
    if cfg_mode == "product":
        m, _ = genpkg.import_package(pkg_root, pkg_names[0][1])
        unset = sys.modules[m.__name__ + ".base_model"].UNSET
        cfgs = []
        for l, c in CONFIGS:
            for vl, bv, gk, wv in variable_configs(unset, m.In):
                cfgs.append(dict(c, label=f"{l}/{vl}", variables=bv, gen_kwargs=gk, wire_variables=wv))
            cfgs.append(dict(c, label=l))
    if cfg_mode.startswith("differential"):
        part, parts = map(int, cfg_mode.split(":")[1].split("/"))
        probs, runs = differential(vs, loop, part, parts)
        res["replays"] += runs
        res["problems"].extend(probs)
        loop.close()
        return res
    if cfg_mode.startswith("concurrent"):
        part, parts, bound = map(int, re.split("[:/]", cfg_mode)[1:4])
        probs, runs, nobs = concurrent_subscriptions(vs, bound, part, parts)
        res["replays"] += runs
        res["schedules"] = runs
        res["concurrent_outcomes"] = nobs
        res["problems"].extend(probs)
        loop.close()
        return res
    for st in states:
        for vname, v in vs.items():
            if cfg_mode == "product":
                res["replays"] += 1
                for clause, detail in replay_sequence(v, st, loop):
                    res["problems"].append((clause, vname, "two_calls_one_client", st["hist"], detail))
            for cfg in cfgs:
                res["replays"] += 1
                for clause, detail in replay_state(v, st, cfg, loop):
                    res["problems"].append((clause, vname, cfg["label"], st["hist"], detail))
    loop.close()
    return res


def gen_packages(root):
    def gen(case):
        out = {}
        for label, opts in case:
            pkg, _, _ = genpkg.generate(root, SCHEMA, GEN_QUERIES, dict(opts, files_to_include=[os.path.join(root, "stamp_mod.py")], **GEN_SCALARS), files={"stamp_mod.py": STAMP_MOD},
                                        pkg=f"c13pkg_{label}")
            out[label] = pkg
        return out
    # each generation in its own fork
    names = []
    SH = "ariadne_codegen.contrib.shorter_results.ShorterResultsPlugin"
    for label, opts, kind, tv in (("plain", {"async_client": True}, "async", "none"), ("ot", {"async_client": True, "opentelemetry_client": True}, "async_ot", "stub"),
                                  ("shorter", {"async_client": True, "plugins": [SH]}, "async", "none")):
        st, r = pool.run_forked(gen, [(label, opts)])
        if st != "ok":
            raise RuntimeError(f"generation failed: {r}")
        names.append((f"generated:{kind}/{tv}" + ("+shorter" if label == "shorter" else ""), r[label], kind, tv))
    return names


# ------------------------------------------------------------------ real websockets binding
def real_binding(case):
    """Run three fixed scripts through a loopback websockets server and through the fake; compare."""
    pkg_root, translate = case
    import importlib
    import websockets
    from websockets.asyncio.server import serve
    mod = importlib.import_module(clients.BUNDLED["async"][0])
    scripts = [["ack", "next1", "ping", "next2", "complete"], ["ack", "ping", "error"], ["next1"], ["ack", "next1", "close"]]
    out = {"version": websockets.__version__, "results": []}

    async def run_real(script):
        received = []

        async def handler(ws):
            try:
                first = await ws.recv()
                received.append(first)
                for f in script:
                    if f == "close":
                        await ws.close()
                        return
                    await ws.send(WIRE[f])
                    if f == "ack":
                        received.append(await ws.recv())
                    if f == "ping":
                        received.append(await ws.recv())
                await asyncio.sleep(0.2)
            except Exception:  # noqa
                pass

        async with serve(handler, "127.0.0.1", 0, subprotocols=["graphql-transport-ws"]) as server:
            port = server.sockets[0].getsockname()[1]
            c = mod.AsyncBaseClient(ws_url=f"ws://127.0.0.1:{port}", ws_headers={"X-Verif": "1"})
            yielded = []
            try:
                async for item in c.execute_ws(query=QUERY, operation_name="Tick", variables={"n": 1}):
                    yielded.append(item)
                outcome = "Done"
            except BaseException as e:  # noqa
                outcome = {"GraphQLClientInvalidMessageFormat": "InvalidMessage", "GraphQLClientGraphQLMultiError": "GraphQLError"}.get(type(e).__name__, f"other:{type(e).__name__}: {e}")
            await asyncio.sleep(0.05)
        return yielded, outcome, [classify_sent(m)[0] for m in received]

    orig = mod.ws_connect
    if translate:
        def wrapped(*a, **k):
            if "extra_headers" in k:
                k["additional_headers"] = k.pop("extra_headers")
            return orig(*a, **k)
        mod.ws_connect = wrapped
    try:
        for script in scripts:
            real = asyncio.run(asyncio.wait_for(run_real(script), 20))
            out["results"].append({"script": script, "yielded": real[0], "outcome": real[1], "server_received": real[2]})
    finally:
        mod.ws_connect = orig
    return out


def expected_for(script):
    """Model expectation for a complete script (computed with the same rules as the TLA+ model)."""
    sent, yielded, outcome, phase = ["init"], [], "Running", "AwaitAck"
    for f in script:
        if outcome != "Running":
            break
        if phase == "AwaitAck":
            if f == "ack":
                phase = "Streaming"
                sent.append("subscribe")
            else:
                outcome = "InvalidMessage"
        elif f in ("next1", "next2"):
            yielded.append(PAYLOAD[f])
        elif f == "ping":
            sent.append("pong")
        elif f in ("complete", "close"):
            outcome = "Done"
        elif f == "error":
            outcome = "GraphQLError"
        elif f in ("nonjson", "unknown", "missing", "nextnodata"):
            outcome = "InvalidMessage"
    return sent, yielded, outcome


def main(tier):
    rep = Report("C13", tier, "model_checking")
    genpkg.warm()
    n = 5 if tier == "quick" else 7
    work = genpkg.scratch_dir("verif-c13-")
    try:
        ok, out, (gen_states, distinct_states) = run_tlc(n, os.path.join(work, "tlc"))
        if not ok:
            rep.violation("tlc_invariant", [], out[-1500:], {"model": "GqlTransportWs.tla", "N": n})
            states = []
        else:
            states = parse_dump(os.path.join(work, "tlc", "states.dump"))
        for s in states:
            for k in ("hist", "sent", "yielded"):
                if not isinstance(s.get(k), list):
                    s[k] = [] if s.get(k) in ("<<>>", "", None) else s[k]
        transitions = sum(1 for s in states if s["hist"])
        pkg_root = os.path.join(work, "pkgs")
        os.makedirs(pkg_root)
        pkg_names = gen_packages(pkg_root)
        nchunks = 32
        chunks = [states[i::nchunks] for i in range(nchunks)]
        cases = [(pkg_root, pkg_names, ch, "default") for ch in chunks if ch]
        small = [s for s in states if len(s["hist"]) <= (3 if tier == "quick" else 4)]
        cases += [(pkg_root, pkg_names, small[i::8], "product") for i in range(8) if small[i::8]]
        cases += [(pkg_root, pkg_names, [], f"differential:{i}/12") for i in range(12)]
        cbound = 3 if tier == "quick" else 4
        cases += [(pkg_root, pkg_names, [], f"concurrent:{i}/16/{cbound}") for i in range(16)]
        replays = schedules = conc_outcomes = 0
        for (st, r) in pool.run_cases(worker, cases, timeout=3000):
            if st != "ok":
                rep.violation("harness_" + st, [], str(r)[:800], {"stage": "replay"})
                continue
            replays += r["replays"]
            schedules += r.get("schedules", 0)
            conc_outcomes += r.get("concurrent_outcomes", 0)
            for clause, vname, cfgl, hist, detail in r["problems"]:
                rep.violation(clause, [f"variant:{vname}", f"cfg:{cfgl}"], detail, {"frames": hist, "variant": vname, "config": cfgl})
        # real library binding
        st, real = pool.run_forked(real_binding, (pkg_root, False), timeout=120)
        real_summary = {}
        if st != "ok":
            rep.violation("harness_" + st, [], str(real)[:800], {"stage": "real_binding"})
        else:
            real_summary["websockets_version"] = real["version"]
            for res in real["results"]:
                sent, yielded, outcome = expected_for(res["script"])
                if (res["outcome"], res["yielded"], res["server_received"]) != (outcome, yielded, sent):
                    feat = ["extra_headers"] if "extra_headers" in str(res["outcome"]) else []
                    rep.violation("real_handshake", feat, f"real websockets {real['version']}: script {res['script']} gave outcome={res['outcome']!r} yielded={res['yielded']} server_received={res['server_received']}; "
                                  f"model expects {outcome} {yielded} {sent}", {"script": res["script"], "library": f"websockets {real['version']}"})
        st, real2 = pool.run_forked(real_binding, (pkg_root, True), timeout=120)
        bound_scripts = 0
        if st != "ok":
            rep.violation("harness_" + st, [], str(real2)[:800], {"stage": "real_binding_translated"})
        else:
            for res in real2["results"]:
                sent, yielded, outcome = expected_for(res["script"])
                bound_scripts += 1
                if (res["outcome"], res["yielded"], res["server_received"]) != (outcome, yielded, sent):
                    rep.violation("fake_vs_real_library", [], f"with the keyword translated, real websockets run of {res['script']} gave {res['outcome']!r} {res['yielded']} {res['server_received']}; "
                                  f"model/fake give {outcome} {yielded} {sent}", {"script": res["script"]})
        for s in states[:1] + states[len(states) // 2: len(states) // 2 + 2] + states[-1:]:
            rep.sample({"server_frames": s["hist"], "model_sent": s["sent"], "model_yielded": s["yielded"], "model_outcome": s["outcome"]})
        return rep.finish({
            "states": max(distinct_states, 1),
            "transitions": max(transitions, 1),
            "traces_validated_against_impl": replays,
            "tlc_states_generated": gen_states,
            "frame_bound_N": n,
            "model": "models/GqlTransportWs.tla (TLC, 7 invariants)",
            "implementation_variants": ["bundled:async", "bundled:async_ot tracer none/stub/noop", "generated plain", "generated OpenTelemetry stub tracer"],
            "configuration_product_states": len(small),
            "real_library_scripts_bound": bound_scripts,
            "exhaustive": True,
            "differential_frames": sorted(WIRE_X),
            "concurrent_subscription_schedules": schedules,
            "concurrent_subscription_deviation_bound": cbound,
            "concurrent_subscription_script_pairs": len(CONC_SCRIPTS) ** 2,
            "concurrent_subscription_distinct_observations": conc_outcomes,
            **real_summary,
        }, assumptions=["frames outside the stated alphabet (JSON non-objects, next with null data, foreign ids, payload variants ...) have no reference expectation in the model; "
                                     "for them only the statement's 'the OpenTelemetry variant behaves identically' is decided (differential pass over all sequences of <= 2 such frames)",
                        "only the installed websockets version can be exercised; the required range >=14.2 cannot be enumerated offline",
                        "socket close before the ack is not specified by the statement and not modelled"])
    finally:
        shutil.rmtree(work, ignore_errors=True)


def replay(path):
    rec = json.load(open(path))
    case = rec["case"]
    genpkg.warm()
    if "frames" not in case:
        print("replay of real-library findings: run ./check C13")
        return 1
    if rec["clause"] == "variants_differ":
        work = genpkg.scratch_dir("verif-c13-")
        try:
            names = gen_packages(work)
            stt, r = pool.run_forked(worker, (work, names, [], "differential:0/1"), timeout=600)
            hits = [p for p in r["problems"] if p[1] == case["variant"] and p[3] == case["frames"] and p[2] == case.get("config")] if stt == "ok" else [r]
            for h in hits[:3]:
                print(h)
            return 1 if hits else 0
        finally:
            shutil.rmtree(work, ignore_errors=True)
    sent, yielded, outcome = expected_for(case["frames"])
    st = {"hist": case["frames"], "sent": sent, "yielded": [k for k in case["frames"] if k in PAYLOAD][:len(yielded)], "outcome": outcome}
    if outcome == "Running":
        pass
    work = genpkg.scratch_dir("verif-c13-")
    try:
        names = gen_packages(work)
        stt, r = pool.run_forked(worker, (work, names, [st], "product" if "/" in case.get("config", "") else "default"))
        hits = [p for p in r["problems"] if p[0] == rec["clause"] and p[1] == case["variant"]] if stt == "ok" else [r]
        for h in hits[:5]:
            print(h)
        return 1 if hits else 0
    finally:
        shutil.rmtree(work, ignore_errors=True)
