"""C01 — result models accept and preserve every conformant response.

Bounded-exhaustive: operation grammar over schema family K (mc/corpus.py) x every response the
choice-driven reference executor can produce within the deviation bound x directive variable
assignments; configuration product on the single-item sub-corpus.
"""
from __future__ import annotations

import re

import json
import warnings

from mc import corpus, features, genpkg, opcheck, pool
from mc.report import Report, seed

CONFIGS = [
    {"convert_to_snake_case": snake, "async_client": a, "opentelemetry_client": ot}
    for snake in (True, False) for a in (True, False) for ot in (False, True)
]


o_extra = {}


CONF_TYPE = {"scalars": {"Blob": {"type": "int"}}}
CONF_PARSE = {"scalars": {"Blob": {"type": "int", "parse": ".blob_mod.parse_blob"}}, "files_to_include": ["@blob_mod.py"]}
BLOB_MOD = "def parse_blob(value):\n    return int(value)\n"


def op_case(o, options, tier, tracer="none"):
    if "scalars" in options and "Blob" in options["scalars"]:
        c = op_case(o, {k: v for k, v in options.items() if k not in ("scalars", "files_to_include")}, tier, tracer)
        c["options"] = dict(c["options"], **options)
        c.update(configured_scalars={"Blob": "int"}, scalar_values={"Blob": 5}, files={"blob_mod.py": BLOB_MOD})
        return c
    if "family:fixture" in o.tags:
        x = o_extra[id(o)]
        return dict(schema=x["schema"], doc_text=o.doc_text, op_name=o.name, uses_var=False, auto_kwargs=True, arg_scalars=x["scal"], scalar_values=x["scal"] or None,
                    options=dict(x["options"], **options), checks=["c01"], bound=2 if tier == "quick" else 3, max_runs=300 if tier == "quick" else 1500, tracer=tracer)
    if "family:K2" in o.tags:
        return dict(schema=corpus.SCHEMA_K2, doc_text=o.doc_text, op_name=o.name, uses_var=False, kwargs_list=corpus.k2_kwargs(o), options=options,
                    checks=["c01"], bound=2 if tier == "quick" else 3, max_runs=400 if tier == "quick" else 2000, tracer=tracer)
    return dict(schema=corpus.SCHEMA_K, doc_text=o.doc_text, op_name=o.name, uses_var=o.uses_var, options=options,
                checks=["c01"], bound=2 if tier == "quick" else 3, max_runs=300 if tier == "quick" else 1500, tracer=tracer)


def fixture_cases(tier):
    """The repository's own end-to-end fixtures as an extra input family (read from /repo at check time)."""
    from graphql import parse
    from checks import fixtures_common as fc
    out = []
    for name in fc.RESPONSE_FIXTURES:
        sec = fc.load_fixture(name)
        if not sec:
            continue
        try:
            schema_text = open(sec["schema_path"]).read()
            queries = open(sec["queries_path"]).read()
            doc = parse(queries)
        except Exception:  # noqa
            continue
        options = {k: v for k, v in sec.items() if k in ("scalars", "files_to_include", "plugins", "include_all_inputs", "include_all_enums", "extract-operations")}
        scal = {k: ({"int": 1, "str": "x"}.get(v.get("type"), "x")) for k, v in (sec.get("scalars") or {}).items()}
        for d in doc.definitions:
            if d.kind == "operation_definition" and d.name and d.operation.value != "subscription":
                out.append((name, schema_text, queries, d.name.value, options, scal))
    return out


def build_cases(tier):
    if tier == "quick":
        singles = {"node": 1, "u": 1, "user": 1, "named": 1, "nodes": 1, "ul": 1, "userReq": 1, "aliased_top": 1}
        pairs = {"node": 2, "u": 2, "user": 2}
    else:
        singles = {"node": 1, "u": 1, "user": 1, "named": 1, "nodes": 1, "ul": 1, "userReq": 1, "aliased_top": 1}
        pairs = {"node": 2, "u": 2, "user": 2, "named": 2, "nodes": 2, "ul": 2}
    st1, st2 = {}, {}
    single_ops = list(corpus.enumerate_ops(singles, rich=True, stats=st1, validate_ops=False))
    pair_ops = [o for o in corpus.enumerate_ops(pairs, rich=(tier != "quick"), stats=st2, validate_ops=False) if "k2" in o.tags]
    wops = corpus.w_ops()
    cases = []
    k2 = corpus.k2_ops()
    k2m = corpus.k2_matrix()
    for o in single_ops + wops + pair_ops + k2 + k2m + corpus.fragment_overlap_ops():
        cases.append((o, {}, "none"))
    # configuration product on the single-feature sub-corpus (every grammar production once)
    step = 1 if tier != "quick" else 3
    sub = (single_ops + wops)[seed() % step::step]
    for cfg in CONFIGS:
        if cfg == {"convert_to_snake_case": True, "async_client": True, "opentelemetry_client": False}:
            continue
        for o in sub + k2:
            cases.append((o, cfg, "none"))
            if cfg["opentelemetry_client"] and cfg["convert_to_snake_case"]:
                cases.append((o, cfg, "noop"))
    # fragment graphs on one type: every 3-fragment DAG x every assignment of names (alphabetical order vs dependency order) x the selection
    # set spreading fragment 1 alone or any subset of the fragments side by side (base-class ordering of the result class)
    from mc import corpus2
    import itertools
    for names in itertools.permutations(("Alpha", "Beta", "Gamma")):
        for g in corpus2.fragment_graphs(3, ("User",), nested_variants=(False,), names=names, subsets=True):
            if "root:one" not in g["tags"] and "root:subset" not in g["tags"]:
                continue
            o = corpus.Op(g["ops"][0], g["doc_text"].split("\n")[0], g["doc_text"], {"family:fragment_graph", f"names:{'<'.join(names)}"} | set(g["tags"]), False, set(), "user")
            cases.append((o, {}, "none"))
    # configured custom scalar (pydantic-native type, and type + parse function) at every result position incl. nullable list items
    for o in single_ops + wops:
        if "blob" in o.text or "wkind:blb" in o.tags or "FCamel" in o.text:
            cases.append((o, dict(CONF_TYPE), "none"))
            cases.append((o, dict(CONF_PARSE), "none"))
    # pruning options: what the result models import must survive include_all_enums / include_all_inputs = false
    for o in sub + k2:
        cases.append((o, {"include_all_enums": False, "include_all_inputs": False}, "none"))
    for fx, schema_text, queries, opn, options, scal in fixture_cases(tier):
        o = corpus.Op(opn, f"{fx}:{opn}", queries, {"family:fixture", f"fixture:{fx}", f"fixture_op:{fx}/{opn}"}, False, set(), "fixture")
        o_extra[id(o)] = dict(schema=schema_text, options=options, scal=scal)
        cases.append((o, {}, "none"))
        if tier != "quick" and not re.search(r"(?m)^\s*subscription\b", queries):
            # the sync client legitimately refuses documents with subscriptions (NotSupported)
            cases.append((o, {"convert_to_snake_case": False, "async_client": False}, "none"))
    return cases, {"fixture_ops": len(o_extra), "k2_ops": len(k2), "k2_matrix_ops": len(k2m), "singles": len(single_ops), "wrapper_ops": len(wops), "pairs": len(pair_ops), "config_subcorpus": len(sub)}


def run(tier, rep, checks=("c01",), clause_prefix=""):
    genpkg.warm()
    warnings.filterwarnings("ignore", category=DeprecationWarning)
    schema = corpus.schema_k()
    cases, sizes = build_cases(tier)
    payload = []
    for o, cfg, tr in cases:
        c = op_case(o, cfg, tier, tr)
        c["checks"] = list(checks)
        payload.append(c)
    results = pool.run_cases(opcheck.evaluate_op, payload, timeout=300, progress=1000)
    stats = dict(sizes, cases=len(cases), invalid_ops=0, gen_errors=0, runs=0, responses=0, capped_ops=0)
    outcomes = set()
    distinct = set()
    for (o, cfg, tr), c, (st, r) in zip(cases, payload, results):
        k2f = "family:K2" in o.tags
        fxf = "family:fixture" in o.tags
        case_desc = {"schema": "K2" if k2f else "K", "query": o.doc_text, "options": cfg, "tracer": tr}
        if fxf:
            case_desc = {"schema": "fixture", "fixture": o.text, "options": cfg, "tracer": tr}
        feats = None

        def F():
            nonlocal feats
            if feats is None:
                if fxf:
                    feats = set(t for t in o.tags if t.startswith("fixture"))
                else:
                    feats = set(features.op_features(corpus.schema_k2() if k2f else schema, o.doc_text)) | set(t for t in o.tags if t != "family:K2")
                feats |= {f"cfg:{k}={v}" for k, v in cfg.items() if k not in ("scalars", "files_to_include")} if cfg else set()
                if cfg and "scalars" in cfg:
                    feats.add("scalar_cfg:type+parse" if "files_to_include" in cfg else "scalar_cfg:type")
            return feats
        if rep.triage:
            rep.seen(F())
        if st != "ok":
            rep.violation("harness_" + st, F(), str(r)[:500], case_desc)
            continue
        if r["status"] == "invalid_op":
            stats["invalid_ops"] += 1
            continue
        if r["status"] != "ok":
            stats["gen_errors"] += 1
            rep.violation(f'{r["status"]}:{r.get("gen_error_type")}', F(), r["gen_error"], case_desc)
            continue
        stats["runs"] += r["runs"]
        stats["responses"] += r["responses"]
        stats["capped_ops"] += 1 if r["capped"] else 0
        outcomes.update(r["outcomes"])
        if r["responses"] > 1:
            distinct.add(o.text.split("{", 1)[1] if "{" in o.text else o.text)
        for clause, detail, ctx in r["problems"]:
            rep.violation(clause, F(), detail, dict(case_desc, **ctx))
        if r["runs"] and len(rep.samples) < 4 and "k2" in o.tags:
            rep.sample({"query": o.text, "responses_explored": r["responses"], "outcomes": r["outcomes"], "options": cfg})
    return stats, outcomes, distinct


def main(tier):
    rep = Report("C01", tier, "exploration")
    stats, outcomes, distinct = run(tier, rep)
    return rep.finish({
        "evaluations": stats["runs"],
        "distinct_nontrivial": len(distinct),
        "rule": "evaluation = one (operation, configuration, directive-variable assignment, response) execution of the generated method through "
                "MockTransport; responses = all leaves of the reference executor's choice tree (null / list length 1,0,2 / runtime type at every position) "
                "with at most `bound` deviations from the default; distinct_nontrivial = distinct operation bodies with more than one explored response",
        "exhaustive": stats["capped_ops"] == 0,
        "deviation_bound": 2 if tier == "quick" else 3,
        "observed_outcomes": sorted(outcomes),
        **stats,
    }, assumptions=["graphql-core execute_sync is the reference for 'spec-conformant server response'",
                    "only error-free executions are conformant responses for this property (error responses: C12)",
                    "schemas are the family K (DESIGN §2); operations are enumerated by the grammar in mc/corpus.py up to k items per selection set"])


def replay(path):
    rec = json.load(open(path))
    case = rec["case"]
    genpkg.warm()
    from graphql import parse
    doc = parse(case["query"])
    name = [d.name.value for d in doc.definitions if d.kind == "operation_definition"][-1]
    c = dict(schema=corpus.SCHEMA_K, doc_text=case["query"], op_name=name, uses_var="$v" in case["query"], options=case.get("options") or {},
             checks=["c01"], bound=2, max_runs=300, tracer=case.get("tracer", "none"))
    if case.get("schema") == "K2":
        o = next(x for x in corpus.k2_ops() + corpus.k2_matrix() if x.name == name)
        c.update(schema=corpus.SCHEMA_K2, uses_var=False, kwargs_list=corpus.k2_kwargs(o))
    st, r = pool.run_forked(opcheck.evaluate_op, c)
    print(st, json.dumps({k: v for k, v in (r or {}).items() if k in ("status", "gen_error", "problem_counts", "runs", "responses")}, default=str))
    for p in (r or {}).get("problems", [])[:5]:
        print("  ", p[0], "::", p[1][:300])
    bad = st != "ok" or r["status"] != "ok" or any(p[0] == rec["clause"] for p in r["problems"])
    return 1 if bad else 0
