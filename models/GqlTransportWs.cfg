SPECIFICATION Spec
CONSTANT N = 3
INVARIANT TypeOK
INVARIANT InitFirst
INVARIANT NothingBeforeAck
INVARIANT OneSubscribeRightAfterAck
INVARIANT PongPerPing
INVARIANT YieldedAreTheNexts
INVARIANT TerminalOutcome
