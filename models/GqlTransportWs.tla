---------------------------- MODULE GqlTransportWs ----------------------------
(* Client side of the graphql-transport-ws protocol as the property C13 states it.
   Written from the protocol text and the property statement, not from the code.
   `hist` is a history variable (every server frame delivered so far), so no two
   different frame sequences are ever merged into one state: the reachable state
   graph is the tree of all frame sequences up to length N, and every state is
   replayed against the implementation by checks/c13.py. *)
EXTENDS Naturals, Sequences

CONSTANT N            \* bound on the number of delivered server frames

Frames == {"ack", "next1", "next2", "ping", "pong", "complete", "error",
           "nonjson", "unknown", "missing", "nextnodata"}
Malformed == {"nonjson", "unknown", "missing", "nextnodata"}

VARIABLES phase,      \* "AwaitAck" | "Streaming" | "Closed"
          sent,       \* frames the client has sent: "init", "subscribe", "pong"
          yielded,    \* payloads handed to the caller, in order
          outcome,    \* "Running" | "Done" | "InvalidMessage" | "GraphQLError"
          hist        \* server frames delivered so far (history variable)

vars == <<phase, sent, yielded, outcome, hist>>

Init == /\ phase = "AwaitAck"
        /\ sent = <<"init">>
        /\ yielded = <<>>
        /\ outcome = "Running"
        /\ hist = <<>>

Finish(o) == /\ outcome' = o
             /\ phase' = "Closed"
             /\ UNCHANGED <<sent, yielded>>

Deliver(f) ==
  /\ outcome = "Running"
  /\ Len(hist) < N
  /\ hist' = Append(hist, f)
  /\ IF phase = "AwaitAck"
       THEN IF f = "ack"
              THEN /\ phase' = "Streaming"
                   /\ sent' = Append(sent, "subscribe")
                   /\ UNCHANGED <<yielded, outcome>>
              ELSE Finish("InvalidMessage")     \* anything but the ack first
       ELSE CASE f \in {"next1", "next2"} ->
                   /\ yielded' = Append(yielded, f)
                   /\ UNCHANGED <<phase, sent, outcome>>
              [] f = "ping" ->
                   /\ sent' = Append(sent, "pong")
                   /\ UNCHANGED <<phase, yielded, outcome>>
              [] f \in {"pong", "ack"} ->
                   UNCHANGED <<phase, sent, yielded, outcome>>
              [] f = "complete" -> Finish("Done")
              [] f = "error" -> Finish("GraphQLError")
              [] f \in Malformed -> Finish("InvalidMessage")

\* the server closes the socket after the handshake: the iterator just ends
ServerClose ==
  /\ outcome = "Running"
  /\ phase = "Streaming"
  /\ Len(hist) < N
  /\ hist' = Append(hist, "close")
  /\ Finish("Done")

Next == (\E f \in Frames : Deliver(f)) \/ ServerClose

Spec == Init /\ [][Next]_vars

---------------------------------------------------------------------------
Count(s, x) == Len(SelectSeq(s, LAMBDA e : e = x))

\* index of the ack in hist (0 if none)
AckAt == IF \E i \in 1..Len(hist) : hist[i] = "ack"
           THEN CHOOSE i \in 1..Len(hist) : hist[i] = "ack" /\ \A j \in 1..(i-1) : hist[j] # "ack"
           ELSE 0

TypeOK == /\ phase \in {"AwaitAck", "Streaming", "Closed"}
          /\ outcome \in {"Running", "Done", "InvalidMessage", "GraphQLError"}

InitFirst == Len(sent) >= 1 /\ sent[1] = "init"
NothingBeforeAck == (AckAt = 0) => sent = <<"init">>
OneSubscribeRightAfterAck ==
   /\ Count(sent, "subscribe") <= 1
   /\ (AckAt # 0) => (Len(sent) >= 2 /\ sent[2] = "subscribe")
PingsAfterAck == IF AckAt = 0 THEN 0 ELSE Count(SubSeq(hist, AckAt + 1, Len(hist)), "ping")
PongPerPing == Count(sent, "pong") = PingsAfterAck
YieldedAreTheNexts ==
   \/ yielded = SelectSeq(hist, LAMBDA e : e \in {"next1", "next2"})
   \/ (outcome = "InvalidMessage" /\ AckAt = 0)
TerminalOutcome ==
   /\ (outcome = "GraphQLError") => (hist[Len(hist)] = "error")
   /\ (outcome = "Done") => (hist[Len(hist)] \in {"complete", "close"})
   /\ (outcome = "InvalidMessage") =>
        ((hist[Len(hist)] \in Malformed) \/ (AckAt = 0 /\ hist[Len(hist)] # "ack"))
=============================================================================
