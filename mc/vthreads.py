"""Baton scheduler for real threads: line events (sys.settrace) inside selected files are scheduling
points; exactly one thread runs at a time; switching away from a runnable thread is a preemption and
is an explorer choice point while the preemption bound is not exhausted."""
from __future__ import annotations

import dis
import sys
import threading
import types

_line_cache = {}


def shared_lines(code, globs):
    """Lines of `code` that can touch state shared between threads: an attribute access on `self`
    (instance state) or a reference to a module global bound to a mutable, non-callable object.
    Lines that only use locals / closure cells / functions commute with the other thread's steps,
    so preempting before them adds no behaviour (partial-order reduction)."""
    key = id(code)
    if key in _line_cache:
        return _line_cache[key]
    lines = set()
    prev = None
    cur_line = code.co_firstlineno
    for ins in dis.get_instructions(code):
        if ins.starts_line is not None:
            cur_line = ins.starts_line if not isinstance(ins.starts_line, bool) else (ins.positions.lineno or cur_line)
        elif ins.positions and ins.positions.lineno:
            cur_line = ins.positions.lineno
        if ins.opname in ("LOAD_ATTR", "STORE_ATTR", "DELETE_ATTR", "LOAD_METHOD") and prev is not None \
                and prev.opname in ("LOAD_FAST", "LOAD_DEREF", "LOAD_FAST_CHECK") and prev.argval == "self":
            lines.add(cur_line)
        if ins.opname in ("LOAD_GLOBAL", "STORE_GLOBAL", "DELETE_GLOBAL"):
            if ins.opname != "LOAD_GLOBAL":
                lines.add(cur_line)
            else:
                v = globs.get(ins.argval, None)
                if v is not None and not callable(v) and not isinstance(v, (types.ModuleType, type, str, int, float, bytes, tuple, frozenset, bool)):
                    lines.add(cur_line)
        prev = ins
    _line_cache[key] = lines
    return lines


class ThreadExplorerRun:
    def __init__(self, bodies, choose, files, bound, reduce=True):
        self.bodies = bodies
        self.choose = choose
        self.files = tuple(files)
        self.bound = bound
        self.reduce = reduce
        self.n = len(bodies)
        self.sems = [threading.Semaphore(0) for _ in bodies]
        self.done = [False] * self.n
        self.results = [None] * self.n
        self.preemptions = 0
        self.points = 0
        self.lock = threading.Lock()
        self.finished = threading.Semaphore(0)
        self.error = None

    def _runnable_others(self, me):
        return [i for i in range(self.n) if i != me and not self.done[i]]

    def _point(self, me):
        self.points += 1
        others = self._runnable_others(me)
        if not others or self.preemptions >= self.bound:
            return
        c = self.choose(1 + len(others), "preempt")
        if c == 0:
            return
        self.preemptions += 1
        nxt = others[c - 1]
        self.sems[nxt].release()
        self.sems[me].acquire()

    def _trace_factory(self, me):
        files = self.files

        def local(frame, event, arg):
            if event == "line" and (not self.reduce or frame.f_lineno in shared_lines(frame.f_code, frame.f_globals)):
                self._point(me)
            return local

        def glob(frame, event, arg):
            if frame.f_code.co_filename.endswith(files):
                return local
            return None
        return glob

    def _thread(self, me):
        self.sems[me].acquire()
        sys.settrace(self._trace_factory(me))
        try:
            try:
                self.results[me] = ("ok", self.bodies[me]())
            except BaseException as e:  # noqa
                self.results[me] = ("exc", e)
        finally:
            sys.settrace(None)
            self.done[me] = True
            others = self._runnable_others(me)
            if others:
                self.sems[others[0]].release()
            else:
                self.finished.release()

    def run(self, timeout=30):
        ths = [threading.Thread(target=self._thread, args=(i,), daemon=True) for i in range(self.n)]
        for t in ths:
            t.start()
        self.sems[0].release()
        if not self.finished.acquire(timeout=timeout):
            raise RuntimeError("thread schedule did not finish (deadlock or horizon)")
        for t in ths:
            t.join(timeout=5)
        return self.results
