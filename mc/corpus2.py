"""Literal-class and fragment-graph corpora (DESIGN §2) used by C02 / C08 / C15."""
from __future__ import annotations

import itertools
import re

SCHEMA_L = '''
directive @tag(v: String, l: [String!]) repeatable on FIELD | QUERY | FRAGMENT_SPREAD | INLINE_FRAGMENT | FRAGMENT_DEFINITION | VARIABLE_DEFINITION
input In { a: String b: [String] c: In }
enum Kind { A B }
type User { id: ID! name(prefix: String, k: Kind = A): String friend: User }
type Query {
  echo(s: String, n: Int, f: Float, b: Boolean, k: Kind, l: [String!], o: In): String
  user: User
}
type Mutation { setEcho(s: String, n: Int): String }
type Subscription { echoed(s: String, n: Int): String }
'''

# operations whose variables are named like the generated method's locals (query, variables, response, data)
LOCAL_NAME_OPS = {
    "query": ("LocQ", 'query LocQ($query: String = "q", $variables: Int, $data: String, $response: Int) { echo(s: $query, n: $variables) e2: echo(s: $data, n: $response) }'),
    "query_caps": ("LocQC", "query LocQC($Query: String, $Data: Int) { echo(s: $Query, n: $Data) }"),
    "mutation": ("LocM", "mutation LocM($query: String, $data: Int) { setEcho(s: $query, n: $data) }"),
    "subscription": ("LocS", "subscription LocS($query: String, $data: Int) { echoed(s: $query, n: $data) }"),
    "subscription_caps": ("LocSC", "subscription LocSC($Query: String, $Variables: Int) { echoed(s: $Query, n: $Variables) }"),
    "subscription_plain": ("PlainS", 'subscription PlainS($s: String = "it") { echoed(s: $s) }'),
}
LOCAL_NAME_KWARGS = {"LocQ": {"query": "cq", "variables": 1, "data": "cd", "response": 2}, "LocQC": {"query": "cq", "data": 3}, "LocM": {"query": "cq", "data": 4},
                     "LocS": {"query": "python", "data": 5}, "LocSC": {"query": "python", "variables": 6}, "PlainS": {"s": "x"}}

# name -> GraphQL source text of a string literal
LITERALS = {
    "plain": '"abc"',
    "empty": '""',
    "apostrophe": '"it\'s"',
    "two_apostrophes": '"a \'b\' c"',
    "dquote_escaped": '"say \\"hi\\""',
    "backslash": '"a\\\\b"',
    "nl_escape": '"line\\nbreak"',
    "literal_backslash_n": '"a\\\\nb"',
    "tab_escape": '"a\\tb"',
    "crlf_escape": '"a\\r\\nb"',
    "hash": '"# not a comment"',
    "equals": '"a = b"',
    "two_quoted_runs": '"x = \'y\' \'z\'"',
    "double_space": '"Ada  Lovelace"',
    "space_runs_and_edges": '"  a   b  "',
    "no_break_space": '"10\u00a0km"',
    "raw_tab": '"a\tb"'.replace("\\t", "\t"),
    "triple_quote_escaped": '"\\"\\"\\""',
    "unicode_bmp": '"café ☃"',
    "unicode_astral": '"smile \U0001F600"',
    "unicode_escape": '"caf\\u00e9"',
    "braces_percent_dollar": '"{a} %s $x"',
    "leading_trailing_space": '"  padded  "',
    "block_one_line": '"""block"""',
    "block_multi_indent": '"""\n    first\n      indented\n    last\n  """',
    "block_with_quotes": '"""say "hi" and it\'s"""',
}

PLACEMENTS = {
    "arg": "query {name} {{ echo(s: {lit}) }}",
    "var_default": "query {name}($s: String = {lit}) {{ echo(s: $s) }}",
    "directive_arg": "query {name} {{ echo @tag(v: {lit}) }}",
    "object_and_list": "query {name} {{ echo(o: {{a: {lit}, b: [{lit}, null], c: {{a: {lit}}}}}, l: [{lit}]) }}",
    "nested_field_arg": "query {name} {{ user {{ name(prefix: {lit}) friend {{ name(prefix: {lit}) }} }} }}",
    "fragment_body": "query {name} {{ user {{ ...LF }} }}\nfragment LF on User @tag(v: {lit}) {{ name(prefix: {lit}) }}",
}

NONSTRING_OPS = {
    "int_float_bool_enum_null": 'query {name} {{ echo(n: -7, f: 1.5e3, b: false, k: B, s: null) }}',
    "var_defaults_all_kinds": 'query {name}($n: Int = 3, $f: Float = 0.5, $b: Boolean = true, $k: Kind = B, $l: [String!] = ["a", "b"], $o: In = {{a: "x", b: ["y"], c: {{a: null}}}}) {{ echo(n: $n, f: $f, b: $b, k: $k, l: $l, o: $o) }}',
    "alias_and_directives": 'query {name}($v: Boolean = true) @tag(v: "q") {{ e1: echo(s: "a") @include(if: $v) @tag(v: "1") @tag(v: "2") e2: echo(s: "b") @skip(if: false) }}',
    "var_directive": 'query {name}($s: String = "d" @tag(v: "onvar")) {{ echo(s: $s) }}',
    "field_arg_enum_default": 'query {name} {{ user {{ name(k: B) n2: name(prefix: "p", k: A) }} }}',
}


def literal_ops(pairs=True):
    """Yield (name, doc_text, tags)."""
    n = 0
    for lname, lit in LITERALS.items():
        for pname, tmpl in PLACEMENTS.items():
            name = f"Lit{n}"
            n += 1
            yield name, tmpl.format(name=name, lit=lit) + "\n", {f"lit:{lname}", f"place:{pname}", "literal_single"}
    for oname, tmpl in NONSTRING_OPS.items():
        name = f"Lit{n}"
        n += 1
        yield name, tmpl.format(name=name) + "\n", {f"nonstring:{oname}"}
    if pairs:
        for (a, la), (b, lb) in itertools.combinations(LITERALS.items(), 2):
            name = f"Lit{n}"
            n += 1
            yield name, f"query {name} {{ e1: echo(s: {la}) e2: echo(s: {lb}) }}\n", {f"lit:{a}", f"lit:{b}", "place:arg", "literal_pair"}


# ------------------------------------------------------------------ fragment graphs over schema K
FRAG_TYPES = ("User", "Node", "Named", "U")
OWN_FIELD = {"User": "age", "Node": "id", "Named": "name", "U": "__typename"}
ROOT_FIELD = {"User": "user", "Node": "node", "Named": "named", "U": "u"}


def fragment_graphs(n_frag, type_sets, nested_variants=(False, True), names=None, subsets=False):
    """All DAGs over F1..Fn (edges i->j only for i<j), each fragment typed from `type_sets`.
    `names` (optional) renames F1..Fn, so that alphabetical order and dependency order can disagree.
    Yields dict(name, doc_text, ops, frag_types, edges, nested, tags)."""
    for g in _fragment_graphs(n_frag, type_sets, nested_variants, subsets):
        if names:
            # two-step rename through placeholders (names may themselves be a permutation of F1..Fn)
            txt = g["doc_text"]
            for i in range(n_frag, 0, -1):
                txt = re.sub(rf"\bF{i}\b", f"\0{i}\0", txt)
            for i in range(1, n_frag + 1):
                txt = txt.replace(f"\0{i}\0", names[i - 1])
            g = dict(g, doc_text=txt, frag_names=tuple(names), tags=g["tags"] | {"renamed_fragments"})
        yield g


def _fragment_graphs(n_frag, type_sets, nested_variants=(False, True), subsets=False):
    idx = list(range(1, n_frag + 1))
    all_edges = [(i, j) for i in idx for j in idx if i < j]
    k = 0
    for types in itertools.product(type_sets, repeat=n_frag):
        for r in range(len(all_edges) + 1):
            for edges in itertools.combinations(all_edges, r):
                for nested in nested_variants:
                    if nested and not edges:
                        continue
                    frs = []
                    for i in idx:
                        t = types[i - 1]
                        parts = [OWN_FIELD[t]]
                        for (a, b) in edges:
                            if a != i:
                                continue
                            if nested and t == "User":
                                parts.append(f"friend {{ ...F{b} }}")
                            else:
                                parts.append(f"...F{b}")
                        frs.append(f"fragment F{i} on {t} {{ {' '.join(parts)} }}")
                    subset_cfgs = []
                    if subsets and n_frag >= 3:
                        # one selection set spreading a SUBSET of the fragments side by side (e.g. both ends of a chain but not the middle)
                        for r2 in range(2, n_frag + 1):
                            for sub in itertools.combinations(idx, r2):
                                if sub != (1,):
                                    subset_cfgs.append("subset:" + "".join(map(str, sub)))
                    for rootcfg in ["one", "two_ops", "one_plus_second"] + subset_cfgs:
                        name = f"G{k}"
                        t1 = types[0]
                        ops = [f"query {name}A {{ {ROOT_FIELD[t1]} {{ ...F1 }} }}"]
                        opnames = [f"{name}A"]
                        if rootcfg == "two_ops" and n_frag >= 2:
                            t2 = types[1]
                            ops.append(f"query {name}B {{ {ROOT_FIELD[t2]} {{ ...F2 }} x: {ROOT_FIELD[t1]} {{ ...F1 }} }}")
                            opnames.append(f"{name}B")
                        elif rootcfg == "one_plus_second" and n_frag >= 2:
                            t2 = types[-1]
                            ops[0] = f"query {name}A {{ {ROOT_FIELD[t1]} {{ ...F1 }} y: {ROOT_FIELD[t2]} {{ ...F{n_frag} }} }}"
                        elif rootcfg.startswith("subset:"):
                            ops[0] = f"query {name}A {{ {ROOT_FIELD[t1]} {{ " + " ".join(f"...F{i}" for i in rootcfg[7:]) + " } }"
                        elif rootcfg != "one":
                            continue
                        k += 1
                        yield dict(name=name, doc_text="\n".join(ops + frs) + "\n", ops=opnames, frag_types=types, edges=edges,
                                   nested=nested, tags={f"frags:{n_frag}", f"edges:{len(edges)}", f"root:{rootcfg}" if not rootcfg.startswith("subset:") else "root:subset",
                                                        "nested_spread" if nested else "direct_spread"} | {f"ftype:{t}" for t in types})


# ------------------------------------------------------------------ member-name catalogue (shared by C04 / C06 / C18)
def name_catalogue():
    import keyword
    import pydantic
    base = set(keyword.kwlist) | set(keyword.softkwlist) | {a for a in dir(pydantic.BaseModel) if not a.startswith("_")}
    base |= {"name", "value", "mro", "self", "cls", "typename", "id", "type", "Any", "List", "Optional", "Field", "BaseModel", "Enum", "str", "int", "bool", "float", "Literal", "Annotated", "Upload", "None_"}
    out = set()
    for n in base:
        out.add(n)
        if "_" in n.strip("_"):
            parts = n.split("_")
            out.add(parts[0] + "".join(p.capitalize() for p in parts[1:]))   # model_dump -> modelDump
            out.add("".join(p.capitalize() for p in parts))                   # ModelDump
        else:
            out.add(n.capitalize() if n.islower() else n.lower())
    return sorted(x for x in out if re.fullmatch(r"[A-Za-z][A-Za-z0-9_]*", x))


# ------------------------------------------------------------------ identifiers the generated code itself uses
HARVEST_SCHEMA = ("scalar Upload\nenum E { A }\ninput I { a: Int e: E }\ninterface N { id: ID }\ntype T implements N { id: ID e: E sub(a: Int, i: I): T }\nunion U = T\n"
                  "type Query { t(i: I, e: E): T n: N u: U }\ntype Mutation { m(f: Upload, i: I): T }\ntype Subscription { s(a: Int): T }\n")
HARVEST_QUERIES = ("query GetT($i: I, $e: E) { t(i: $i, e: $e) { ...F sub(a: 1) { id } } n { id ... on T { e } } u { ... on T { id } } }\nfragment F on T { id e }\n"
                   "mutation DoM($f: Upload, $i: I) { m(f: $f, i: $i) { id } }\nsubscription OnS($a: Int) { s(a: $a) { id } }\n")


def harvest_generated_identifiers():
    """Names bound anywhere in a generated package (parameters, locals, functions, classes, imported names) — a GraphQL name equal to one of them
    is 'a name that collides with a generated helper name'.  Computed by generating one feature-rich package in a forked child."""
    import ast as _ast
    from . import genpkg, pool

    def gen(_):
        names = set()
        for opts in ({"enable_custom_operations": True}, {"async_client": False, "opentelemetry_client": True}):
            with genpkg.scratch() as d:
                pkg, pdir, _ = genpkg.generate(d, HARVEST_SCHEMA, HARVEST_QUERIES if opts.get("async_client", True) else HARVEST_QUERIES.split("subscription")[0], dict(opts))
                import os
                for fn in os.listdir(pdir):
                    if not fn.endswith(".py"):
                        continue
                    tree = _ast.parse(open(os.path.join(pdir, fn)).read())
                    for node in _ast.walk(tree):
                        if isinstance(node, _ast.arg):
                            names.add(node.arg)
                        elif isinstance(node, _ast.Name) and isinstance(node.ctx, _ast.Store):
                            names.add(node.id)
                        elif isinstance(node, (_ast.FunctionDef, _ast.AsyncFunctionDef, _ast.ClassDef)):
                            names.add(node.name)
                        elif isinstance(node, _ast.alias):
                            names.add((node.asname or node.name).split(".")[0])
        own = re.compile(r"^(GetT|DoM|OnS|TFields|TGraphQL|NGraphQL|NInterface|UUnion)|^[A-Z]$")   # names coming from the harvest schema itself
        return sorted(n for n in names if re.fullmatch(r"[A-Za-z][A-Za-z0-9_]*", n) and not n.startswith("__") and not own.search(n))
    st, r = pool.run_forked(gen, None, timeout=300)
    return r if st == "ok" else []
