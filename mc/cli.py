"""./check <Cnn> [--tier quick|thorough] [--replay FILE]"""
import argparse
import importlib
import os
import sys


def main():
    ap = argparse.ArgumentParser()
    ap.add_argument("prop")
    ap.add_argument("--tier", default=os.environ.get("VERIF_TIER", "quick"), choices=["quick", "thorough"])
    ap.add_argument("--replay", default=None)
    a = ap.parse_args()
    mod = importlib.import_module(f"checks.{a.prop.lower()}")
    if a.replay:
        sys.exit(mod.replay(a.replay))
    sys.exit(mod.main(a.tier))


if __name__ == "__main__":
    main()
