"""Plugins used by the C15 check: an identity plugin (overrides no hook) and two tagging plugins that
record the order in which every hook of the Plugin base class is applied."""
import inspect

from ariadne_codegen.plugins.base import Plugin

LOG = []


class IdentityPlugin(Plugin):
    pass


def _hooks():
    return [n for n, f in inspect.getmembers(Plugin, inspect.isfunction) if not n.startswith("_")]


def _make(tag):
    ns = {}
    for hook in _hooks():
        def mk(hook=hook):
            def method(self, first, *a, **k):
                LOG.append((hook, tag))
                return first
            method.__name__ = hook
            return method
        ns[hook] = mk()
    return type(f"Tag{tag}Plugin", (Plugin,), ns)


TagAPlugin = _make("A")
TagBPlugin = _make("B")


class HideInternalPlugin(Plugin):
    """process_schema removes every field / argument whose name starts with `internal` (C17: operations are validated against the
    schema the plugins hand back)."""

    def process_schema(self, schema):
        from graphql import build_schema, print_schema
        sdl = "\n".join(line for line in print_schema(schema).splitlines() if "internal" not in line)
        return build_schema(sdl)


class AddFieldPlugin(Plugin):
    """process_schema adds Query.addedByPlugin: an operation selecting it is valid for the processed schema only."""

    def process_schema(self, schema):
        from graphql import extend_schema, parse
        return extend_schema(schema, parse("extend type Query { addedByPlugin: Int }"))
