"""Plugins used by the C15 check: an identity plugin (overrides no hook) and two tagging plugins that
record the order in which every hook of the Plugin base class is applied."""
import inspect

from ariadne_codegen.plugins.base import Plugin

LOG = []


class IdentityPlugin(Plugin):
    pass


def _hooks():
    return [n for n, f in inspect.getmembers(Plugin, inspect.isfunction) if not n.startswith("_")]


def _make(tag):
    ns = {}
    for hook in _hooks():
        def mk(hook=hook):
            def method(self, first, *a, **k):
                LOG.append((hook, tag))
                return first
            method.__name__ = hook
            return method
        ns[hook] = mk()
    return type(f"Tag{tag}Plugin", (Plugin,), ns)


TagAPlugin = _make("A")
TagBPlugin = _make("B")
