"""C05 reference: response conformance and single-point corruptions; annotation image."""
from __future__ import annotations

import copy
import enum
import typing

from graphql import (
    get_named_type, get_operation_ast, is_abstract_type, is_composite_type, is_enum_type, is_leaf_type, is_list_type,
    is_non_null_type, is_object_type,
)
from graphql.execution.collect_fields import collect_fields
from graphql.execution.values import get_variable_values

BUILTIN = {"String": str, "ID": str, "Int": int, "Float": float, "Boolean": bool}
# custom scalars configured with a pydantic-native type in the case under test: GraphQL name -> (python type, behaves-like builtin)
CONFIGURED = {}


def scalar_ok(t, v):
    if is_enum_type(t):
        return isinstance(v, str) and v in t.values
    n = t.name
    if n in ("String", "ID"):
        return isinstance(v, str)
    if n == "Int":
        return isinstance(v, int) and not isinstance(v, bool)
    if n == "Float":
        return isinstance(v, (int, float)) and not isinstance(v, bool)
    if n == "Boolean":
        return isinstance(v, bool)
    return True  # custom scalar: any non-null JSON value


def var_assignments(op):
    names = [v.variable.name.value for v in (op.variable_definitions or [])]
    if not names:
        return [{}]
    outs = [{}]
    for n in names:  # the corpus only uses Boolean! directive variables
        outs = [dict(o, **{n: b}) for o in outs for b in (True, False)]
    return outs


def conforms(schema, doc, data, operation_name=None):
    """Is `data` a response the operation can produce (under some assignment of its Boolean
    directive variables)?  Exact key sets, nullability, list/leaf/object kinds, __typename."""
    op = get_operation_ast(doc, operation_name)
    fragments = {d.name.value: d for d in doc.definitions if d.kind == "fragment_definition"}
    root = schema.get_root_type(op.operation)

    def strict(varvals):
        def obj_ok(static_t, sss, value):
            if not isinstance(value, dict):
                return False
            if is_abstract_type(static_t):
                tn = value.get("__typename")
                rt = schema.get_type(tn) if isinstance(tn, str) else None
                if rt is None or not is_object_type(rt) or not schema.is_sub_type(static_t, rt):
                    return False
            else:
                rt = static_t
            grouped = {}
            for ss in sss:
                for k, nodes in collect_fields(schema, fragments, varvals, rt, ss).items():
                    grouped.setdefault(k, []).extend(nodes)
            if set(grouped) != set(value):
                return False
            for k, nodes in grouped.items():
                fname = nodes[0].name.value
                if fname == "__typename":
                    if value[k] != rt.name:
                        return False
                    continue
                fdef = rt.fields[fname]
                if not val_ok(fdef.type, [n.selection_set for n in nodes if n.selection_set], value[k]):
                    return False
            return True

        def val_ok(t, sss, v):
            if is_non_null_type(t):
                return v is not None and val_ok(t.of_type, sss, v)
            if v is None:
                return True
            if is_list_type(t):
                return isinstance(v, list) and all(val_ok(t.of_type, sss, x) for x in v)
            if is_leaf_type(t):
                return not isinstance(v, (list, dict)) and scalar_ok(t, v) if t.name in BUILTIN or is_enum_type(t) else True
            return obj_ok(t, sss, v)

        return obj_ok(root, [op.selection_set], data)

    return any(strict(v) for v in var_assignments(op))


# ------------------------------------------------------------------ corruption sites
def has_cond_directive(node):
    return any(d.name.value in ("skip", "include") for d in (node.directives or ()))


def collect_with_conditions(schema, fragments, rt, sss):
    """Field collection for runtime type rt that ignores directive *values* (everything included) and
    records for every field node whether it is conditional: it, or a fragment enclosing it within
    this object scope, carries @skip/@include.  Returns {response_key: [(node, conditional)]}."""
    out = {}

    def applies(cond_name):
        ct = schema.get_type(cond_name)
        return ct is rt or (is_abstract_type(ct) and schema.is_sub_type(ct, rt))

    def rec(ss, cond, seen):
        for s in ss.selections:
            if s.kind == "field":
                out.setdefault(s.alias.value if s.alias else s.name.value, []).append((s, cond or has_cond_directive(s)))
            elif s.kind == "inline_fragment":
                if s.type_condition is None or applies(s.type_condition.name.value):
                    rec(s.selection_set, cond or has_cond_directive(s), seen)
            elif s.kind == "fragment_spread":
                fd = fragments.get(s.name.value)
                if fd is not None and applies(fd.type_condition.name.value):
                    rec(fd.selection_set, cond or has_cond_directive(s), seen)

    for ss in sss:
        rec(ss, False, set())
    return out


class Site:
    __slots__ = ("path", "type", "in_dict", "conditional", "static_type", "is_typename")

    def __init__(self, path, type_, in_dict, conditional, static_type=None, is_typename=False):
        self.path, self.type, self.in_dict, self.conditional = path, type_, in_dict, conditional
        self.static_type, self.is_typename = static_type, is_typename


def sites(schema, doc, data, operation_name=None):
    """Every value position of `data`, typed by walking the operation with the runtime types found in
    the data itself."""
    op = get_operation_ast(doc, operation_name)
    fragments = {d.name.value: d for d in doc.definitions if d.kind == "fragment_definition"}
    root = schema.get_root_type(op.operation)
    out = []

    def obj(path, static_t, sss, value):
        if not isinstance(value, dict):
            return
        if is_abstract_type(static_t):
            rt = schema.get_type(value.get("__typename")) if isinstance(value.get("__typename"), str) else None
            if rt is None or not is_object_type(rt):
                return
        else:
            rt = static_t
        grouped = collect_with_conditions(schema, fragments, rt, sss)
        for k, v in value.items():
            nodes = grouped.get(k)
            if not nodes:
                continue
            fname = nodes[0][0].name.value
            conditional = all(c for _, c in nodes)
            if fname == "__typename":
                out.append(Site(path + (k,), None, True, conditional, static_t, True))
                continue
            fdef = rt.fields[fname]
            val(path + (k,), fdef.type, [n.selection_set for n, _ in nodes if n.selection_set], v, True, conditional)

    def val(path, t, sss, v, in_dict, conditional):
        out.append(Site(path, t, in_dict, conditional))
        if v is None:
            return
        nn = t.of_type if is_non_null_type(t) else t
        if is_list_type(nn):
            if isinstance(v, list):
                for i, x in enumerate(v):
                    val(path + (i,), nn.of_type, sss, x, False, False)
        elif is_composite_type(nn):
            obj(path, nn, sss, v)

    obj((), root, [op.selection_set], data)
    return out


def set_at(data, path, value, remove=False):
    d = copy.deepcopy(data)
    cur = d
    for p in path[:-1]:
        cur = cur[p]
    if remove:
        del cur[path[-1]]
    else:
        cur[path[-1]] = value
    return d


def corruptions(schema, doc, data):
    """Yield (kind, path, corrupted_data, must_reject) for every single-point corruption.
    must_reject is decided from the statement's four clauses only:
      null at a non-null unconditional position; an unconditional selected key missing; a value of
      another JSON kind (leaf/list/object, or a non-coercible other scalar); a __typename that is not
      a possible type of the position.  None = the statement demands nothing."""
    all_types = sorted(t.name for t in schema.type_map.values() if is_object_type(t) and not t.name.startswith("__"))
    for st in sites(schema, doc, data):
        path = st.path
        cur = data
        for p in path:
            cur = cur[p]
        if st.is_typename:
            if is_abstract_type(st.static_type):
                possible = {t.name for t in schema.get_possible_types(st.static_type)}
            else:
                possible = {st.static_type.name}
            for tn in all_types + ["NoSuchType"]:
                if tn != cur:
                    yield ("typename:" + ("unknown" if tn == "NoSuchType" else "impossible" if tn not in possible else "possible"),
                           path, set_at(data, path, tn), True if tn not in possible else None)
            continue
        t = st.type
        nn = t.of_type if is_non_null_type(t) else t
        custom = is_leaf_type(nn) and not is_enum_type(nn) and nn.name not in BUILTIN and nn.name not in CONFIGURED
        if cur is not None:
            # an unconfigured custom scalar is declared Any by the statement's own converse clause, and None is a valid Any: nothing demanded
            yield ("null", path, set_at(data, path, None), True if (is_non_null_type(t) and not st.conditional and not custom) else None)
        if st.in_dict:
            yield ("remove", path, set_at(data, path, None, remove=True), True if not st.conditional else None)
        if cur is None or custom:
            continue
        if is_list_type(nn):
            wit = ["x", 7, {"k": "x"}]
        elif is_composite_type(nn):
            wit = ["x", 7, ["x"]]
        else:
            wit = [["x"], {"k": "x"}]
            if is_enum_type(nn):
                wit += ["x__not_a_member", 7]
            elif nn.name in ("Int", "Float") or CONFIGURED.get(nn.name, (None, None))[1] == "Int":
                wit += ["x"]
            elif nn.name == "Boolean":
                wit += ["x", 7]
            elif nn.name in ("String", "ID"):
                wit += [7]
        for w in wit:
            yield ("kind:" + type(w).__name__, path, set_at(data, path, w), True)


def fmt(path):
    return "$" + "".join(f"[{p}]" if isinstance(p, int) else f".{p}" for p in path)


def check_corruptions(schema, doc, data, Model, limit=None):
    import pydantic
    problems, n = [], 0
    stats = {"must_reject": 0, "no_demand": 0, "no_demand_accepted": 0}
    for kind, path, bad, must_reject in corruptions(schema, doc, data):
        if limit and n >= limit:
            break
        n += 1
        try:
            Model.model_validate(bad)
            accepted = True
        except pydantic.ValidationError:
            accepted = False
        except Exception as e:  # noqa
            problems.append(("validate_crashed", f"{kind} at {fmt(path)}: {type(e).__name__}: {e}", {"corruption": kind, "path": fmt(path), "payload": bad}))
            continue
        if must_reject:
            stats["must_reject"] += 1
            if accepted:
                problems.append((f"accepted_nonconformant:{kind.split(':')[0]}", f"{kind} at {fmt(path)} accepted", {"corruption": kind, "path": fmt(path), "payload": bad}))
        else:
            stats["no_demand"] += 1
            stats["no_demand_accepted"] += 1 if accepted else 0
    return problems, n, stats


# ------------------------------------------------------------------ annotation image (converse half)
def strip_optional(ann):
    if typing.get_origin(ann) is typing.Union:
        args = typing.get_args(ann)
        if type(None) in args:
            rest = tuple(a for a in args if a is not type(None))
            if len(rest) == 1:
                return True, rest[0]
            return True, typing.Union[rest]
    return False, ann


def strip_annotated(ann):
    while typing.get_origin(ann) is typing.Annotated:
        ann = typing.get_args(ann)[0]
    return ann


def annotation_matches(ann, t, conditional):
    """Is `ann` exactly the image of GraphQL type t?  Returns None if ok else a reason."""
    import pydantic
    nullable = not is_non_null_type(t)
    inner_t = t.of_type if not nullable else t
    ann = strip_annotated(ann) if typing.get_origin(ann) is typing.Annotated and not is_leaf_type(get_named_type(t)) else ann
    is_opt, inner = strip_optional(ann)
    if inner is typing.Any and (nullable or conditional):
        is_opt = True  # Optional[Any] collapses to Any in typing
    if is_opt != (nullable or conditional):
        return f"Optional={is_opt} but nullable={nullable} conditional={conditional}"
    if is_list_type(inner_t):
        if typing.get_origin(inner) not in (list, typing.List):
            return f"expected List, got {inner}"
        return annotation_matches(typing.get_args(inner)[0], inner_t.of_type, False)
    if is_enum_type(inner_t):
        if not (isinstance(inner, type) and issubclass(inner, enum.Enum) and inner.__name__ == inner_t.name):
            return f"expected enum class {inner_t.name}, got {inner}"
        return None
    if is_leaf_type(inner_t):
        want = BUILTIN.get(inner_t.name, CONFIGURED.get(inner_t.name, (typing.Any, None))[0])
        if inner is not want:
            return f"expected {want}, got {inner}"
        return None
    inner = strip_annotated(inner)
    classes = typing.get_args(inner) if typing.get_origin(inner) is typing.Union else (inner,)
    classes = tuple(strip_annotated(c) for c in classes)
    if not all(isinstance(c, type) and issubclass(c, pydantic.BaseModel) for c in classes):
        return f"expected model class(es), got {inner}"
    return None


def check_annotations(schema, doc, variables, data, result, seen):
    """Walk a conformant response and the returned model in parallel; compare each field's
    declared annotation with the image of its GraphQL type.  `seen` de-duplicates (class, field)."""
    import pydantic
    from . import refexec
    from .opcheck import field_for_key, get_at
    op = get_operation_ast(doc, None)
    fragments = {d.name.value: d for d in doc.definitions if d.kind == "fragment_definition"}
    problems = []
    n = 0
    for pos in refexec.walk(schema, doc, variables, data):
        obj = get_at(result, pos.path)
        if not isinstance(obj, pydantic.BaseModel) or pos.runtime_type is None:
            continue
        cls = type(obj)
        for key, (nodes, fdef) in pos.fields.items():
            if fdef is None:
                continue
            name = field_for_key(cls, key)
            if name is None or (cls.__name__, name) in seen:
                continue
            seen.add((cls.__name__, name))
            n += 1
            conditional = any(d.name.value in ("skip", "include") for nd in nodes for d in (nd.directives or ()))
            if not conditional:
                # conditional through an enclosing fragment: key absent under some assignment
                for varvals in var_assignments(op):
                    pass
            why = annotation_matches(cls.model_fields[name].annotation, fdef.type, conditional)
            if why:
                problems.append(("annotation_image", f"{cls.__name__}.{name} ({key}: {fdef.type}): {why}", {"class": cls.__name__, "field": name}))
    return problems, n
