"""Shared input universes: schema family K and the operation grammar over it (DESIGN §2)."""
from __future__ import annotations

import itertools

from graphql import build_schema, parse, validate, specified_rules, GraphQLSchema

# ------------------------------------------------------------------ wrapper shapes
def wrapper_shapes():
    """All 14 nullability/list wrapper shapes up to list depth 2, as format strings."""
    shapes = []
    for depth in range(3):
        for bits in itertools.product("?!", repeat=depth + 1):
            # bits[0] innermost nullability ... bits[-1] outermost
            s = "T" + ("!" if bits[0] == "!" else "")
            for b in bits[1:]:
                s = "[" + s + "]" + ("!" if b == "!" else "")
            shapes.append(s)
    return shapes


SHAPES = wrapper_shapes()
assert len(SHAPES) == 14, SHAPES
W_KINDS = {"str": "String", "enm": "Kind", "obj": "User", "ifc": "Node", "uni": "U", "blb": "Blob"}


def w_fields():
    out = []
    for kind, tname in W_KINDS.items():
        for i, shape in enumerate(SHAPES):
            out.append((f"{kind}{i}", shape.replace("T", tname), kind, shape))
    return out


SCHEMA_K = """
directive @tag(name: String) repeatable on FIELD | FRAGMENT_DEFINITION | FRAGMENT_SPREAD | INLINE_FRAGMENT
interface Node { id: ID! }
interface Named implements Node { id: ID! name: String }
type User implements Node & Named {
  id: ID!
  name: String
  age: Int
  kind: Kind!
  friend: User
  friends: [User!]
  owner: Node!
  blob: Blob
  score: Float
  active: Boolean!
  firstName: String
  HTTPCode: Int!
  class: Int
  copy: String
  _hidden: ID
  modelExtra: String
  modelFieldsSet: Int
  Json: String
}
type Admin implements Node { id: ID! level: Int! perms: [String!]! }
type Bot implements Node & Named { id: ID! name: String version: String! }
union U = User | Admin
enum Kind { A B }
scalar Blob
type W {
%s
}
type Query {
  node: Node
  nodes: [Node!]!
  u: U
  ul: [U!]
  named: Named
  user: User
  userReq: User!
  w: W!
}
""" % "\n".join(f"  {n}: {t}" for n, t, _, _ in w_fields())

_schema_cache = {}


def schema_k2() -> GraphQLSchema:
    if "k2" not in _schema_cache:
        _schema_cache["k2"] = build_schema(SCHEMA_K2)
    return _schema_cache["k2"]


def schema_k() -> GraphQLSchema:
    if "k" not in _schema_cache:
        _schema_cache["k"] = build_schema(SCHEMA_K)
    return _schema_cache["k"]


# ------------------------------------------------------------------ fragment library
FRAGMENTS = {
    "FUser": ("User", "fragment FUser on User { id name }", set()),
    "FUserKind": ("User", "fragment FUserKind on User { kind friend { id } }", set()),
    "FNode": ("Node", "fragment FNode on Node { id }", set()),
    "FNamed": ("Named", "fragment FNamed on Named { name }", set()),
    "FNodeInl": ("Node", "fragment FNodeInl on Node { id ... on User { name } }", set()),
    "FU": ("U", "fragment FU on U { ... on User { id } ... on Admin { level } }", set()),
    "FAdmin": ("Admin", "fragment FAdmin on Admin { level perms }", set()),
    "FNested": ("User", "fragment FNested on User { ...FUser friend { ...FUser } }", {"FUser"}),
    "FCamel": ("User", "fragment FCamel on User { firstName HTTPCode blob }", set()),
}


def frag_closure(names):
    out, todo = set(), list(names)
    while todo:
        n = todo.pop()
        if n in out:
            continue
        out.add(n)
        todo.extend(FRAGMENTS[n][2])
    return out


class Item:
    __slots__ = ("text", "tags", "frags", "var")

    def __init__(self, text, tags=(), frags=(), var=False):
        self.text, self.tags, self.frags, self.var = text, frozenset(tags), frozenset(frags), var

    def __repr__(self):
        return f"Item({self.text!r})"


# small inner selections per type: (text, tags, fragments)
SUB = {
    "User": [("id", (), ()), ("name kind", ("enum",), ()), ("friend { id }", ("nested",), ()), ("...FUser", ("inner_spread",), ("FUser",))],
    "Admin": [("level", (), ()), ("id perms", ("list_leaf",), ())],
    "Bot": [("version", (), ()), ("id name", (), ())],
    "Named": [("name", (), ()), ("id ... on Bot { version }", ("inner_inline",), ())],
    "Node": [("id", (), ()), ("... on User { name }", ("inner_inline",), ())],
    "U": [("... on User { id }", ("inner_inline",), ()), ("__typename", ("explicit_typename",), ())],
}
LEAVES = {
    "User": ["id", "name", "kind", "score", "blob", "active", "firstName", "HTTPCode", "class", "copy", "_hidden", "modelExtra", "modelFieldsSet", "Json"],
    "Admin": ["id", "level", "perms"],
    "Bot": ["id", "name", "version"],
    "Named": ["id", "name"],
    "Node": ["id"],
    "U": [],
}
COMPOSITE_FIELDS = {"User": [("friend", "User"), ("friends", "User"), ("owner", "Node")]}   # owner: Node! - a NON-NULL abstract field
DIRECTIVES = [("@include(if: $v)", "include_var"), ("@skip(if: $v)", "skip_var"), ("@skip(if: true)", "skip_true"), ("@include(if: true)", "include_true")]
TYPE_CONDS = ["User", "Admin", "Bot", "Named", "Node", "U"]


def menu(tname, rich=True):
    """Selection items applicable (syntactically) under a selection set of type `tname`.
    Validity is decided later by graphql-core."""
    items = []
    leaves = LEAVES[tname]
    for i, f in enumerate(leaves):
        items.append(Item(f, {f"field"}))
        if i == 0:
            items.append(Item(f"al_{f}: {f}", {"alias"}))
            for d, tag in DIRECTIVES:
                items.append(Item(f"{f} {d}", {"field_directive", f"field_{tag}"}, var="$v" in d))
            # a conditional directive that is not the first (or not the only) directive on the field
            items.append(Item(f'{f} @tag(name: "x") @include(if: $v)', {"field_directive", "two_directives", "conditional_second"}, var=True))
            items.append(Item(f'{f} @skip(if: $v) @tag(name: "x")', {"field_directive", "two_directives", "conditional_first"}, var=True))
            items.append(Item(f'{f} @tag(name: "x") @tag(name: "y") @skip(if: $v)', {"field_directive", "two_directives", "conditional_third"}, var=True))
    if len(leaves) > 1:
        f = leaves[1]
        items.append(Item(f"{f} @include(if: $v)", {"field_directive", "field_include_var"}, var=True))
        items.append(Item(f"camelAlias: {f}", {"alias", "camel_alias"}))
    for f, ft in COMPOSITE_FIELDS.get(tname, []):
        for j, (s, tags, frags) in enumerate(SUB[ft][:3] if rich else SUB[ft][:1]):
            items.append(Item(f"{f} {{ {s} }}", {"composite_field", *tags}, frags))
        items.append(Item(f"{f} @include(if: $v) {{ id }}", {"composite_field", "field_directive", "composite_include_var"}, var=True))
        if ft != tname:
            # a conditional field of another (abstract) type, selected through a type-specific inline fragment
            items.append(Item(f"{f} @skip(if: $v) {{ {SUB[ft][1][0]} }}", {"composite_field", "field_directive", "composite_skip_var", *SUB[ft][1][1]}, SUB[ft][1][2], var=True))
        items.append(Item(f'{f} @tag(name: "x") @skip(if: $v) {{ id }}', {"composite_field", "field_directive", "two_directives", "conditional_second"}, var=True))
        items.append(Item(f"al1_{f}: {f} {{ id }}", {"composite_field", "alias", "aliased_composite"}))
        items.append(Item(f"al2_{f}: {f} {{ name kind }}", {"composite_field", "alias", "aliased_composite", "enum"}))
    items.append(Item("__typename", {"explicit_typename"}))
    items.append(Item("tn: __typename", {"explicit_typename", "aliased_typename"}))
    for c in TYPE_CONDS:
        for j, (s, tags, frags) in enumerate(SUB[c] if rich else SUB[c][:1]):
            items.append(Item(f"... on {c} {{ {s} }}", {"inline", f"inline_on:{c}", *tags}, frags))
            if j == 0:
                items.append(Item(f"... on {c} @include(if: $v) {{ {s} }}", {"inline", f"inline_on:{c}", "inline_directive", *tags}, frags, var=True))
                items.append(Item(f"... on {c} @skip(if: $v) {{ {s} }}", {"inline", f"inline_on:{c}", "inline_directive", *tags}, frags, var=True))
    for j, (s, tags, frags) in enumerate(SUB[tname][:2]):
        items.append(Item(f"... {{ {s} }}", {"inline", "inline_no_typecond", *tags}, frags))
        if j == 0:
            items.append(Item(f"... @include(if: $v) {{ {s} }}", {"inline", "inline_no_typecond", "inline_directive", *tags}, frags, var=True))
    for name, (cond, _, _) in FRAGMENTS.items():
        items.append(Item(f"...{name}", {"spread", f"spread:{name}", f"spread_on:{cond}"}, {name}))
    for name in ("FUser", "FNode"):
        items.append(Item(f"...{name} @include(if: $v)", {"spread", f"spread:{name}", "spread_directive"}, {name}, var=True))
    return items


POSITIONS = [
    ("node", "Node", "node"), ("u", "U", "u"), ("user", "User", "user"), ("named", "Named", "named"),
    ("nodes", "Node", "nodes"), ("ul", "U", "ul"), ("userReq", "User", "userReq"), ("aliasTop: node", "Node", "aliased_top"),
]


class Op:
    __slots__ = ("name", "text", "doc_text", "tags", "uses_var", "frags", "position")

    def __init__(self, name, text, doc_text, tags, uses_var, frags, position):
        self.name, self.text, self.doc_text, self.tags, self.uses_var, self.frags, self.position = name, text, doc_text, tags, uses_var, frags, position


def build_op(name, position, ptype, ptag, items):
    var = any(i.var for i in items)
    sel = " ".join(i.text for i in items)
    head = f"query {name}($v: Boolean!)" if var else f"query {name}"
    text = f"{head} {{ {position} {{ {sel} }} }}"
    frags = frag_closure(set().union(*[i.frags for i in items]) if items else set())
    doc_text = text + "\n" + "\n".join(FRAGMENTS[f][1] for f in sorted(frags)) + "\n"
    tags = set().union(*[i.tags for i in items]) | {f"pos:{ptag}", f"postype:{ptype}", f"k{len(items)}"}
    return Op(name, text, doc_text, tags, var, frags, position)


def is_valid(schema, doc_text):
    try:
        doc = parse(doc_text)
    except Exception:
        return False
    return not validate(schema, doc, specified_rules)


def enumerate_ops(k_by_position, rich=True, stats=None, validate_ops=True):
    """Yield valid Ops, simplest first (all singles over all positions, then pairs, ...).
    k_by_position: {position tag: max k}."""
    schema = schema_k()
    n = 0
    cand = invalid = 0
    seen = set()
    maxk = max(k_by_position.values())
    for k in range(1, maxk + 1):
        for position, ptype, ptag in POSITIONS:
            if k_by_position.get(ptag, 0) < k:
                continue
            m = menu(ptype, rich=rich)
            for combo in itertools.combinations(m, k):
                cand += 1
                op = build_op(f"Op{n}", position, ptype, ptag, combo)
                key = op.text.split("{", 1)[1]
                if key in seen:
                    continue
                seen.add(key)
                if validate_ops and not is_valid(schema, op.doc_text):
                    invalid += 1
                    continue
                n += 1
                yield op
    if stats is not None:
        stats.update(candidates=cand, invalid=invalid, valid=n)


W_SUBSEL = {"blb": "", "str": "", "enm": "", "obj": " { id }", "ifc": " { id ... on User { name } }", "uni": " { ... on User { id } ... on Admin { level } }"}


def w_ops():
    out = []
    for i, (fname, ftype, kind, shape) in enumerate(w_fields()):
        name = f"W{i}"
        text = f"query {name} {{ w {{ {fname}{W_SUBSEL[kind]} }} }}"
        out.append(Op(name, text, text + "\n", {"wrapper", f"wkind:{kind}", f"shape:{shape}"}, False, set(), "w"))
    return out


# ------------------------------------------------------------------ second schema family: custom roots, deep nesting,
# abstract types inside members of abstract types, keyword enum values, mutation results
SCHEMA_K2 = """
schema { query: RootQuery mutation: RootMutation }
enum Status { active in class None }
interface Entity { id: ID! }
interface Actor implements Entity { id: ID! displayName: String! }
type Person implements Entity & Actor { id: ID! displayName: String! status: Status! team: Team manager: Actor reports: [Actor!]! history: [[Status!]]  }
type Robot implements Entity & Actor { id: ID! displayName: String! model: String owner: Person }
type Team implements Entity { id: ID! title: String! lead: Actor members: [Member!]! parent: Team tags: [String]! }
union Member = Person | Robot
union Thing = Person | Robot | Team
union Solo = Robot
type Page { items: [Thing]! next: Page total: Int! }
type RootQuery { me: Person! actor(id: ID!): Actor entity(id: ID!): Entity team(id: ID!): Team things(first: Int = 10): Page! members: [[Member!]!] solo: Solo! solos: [Solo!]! soloOpt: Solo }
type RootMutation { rename(id: ID!, to: String!): Actor! disband(id: ID!): Team }
"""
K2_OPS = [
    'query K2Deep { me { team { parent { parent { title lead { id displayName } } } } } }',
    'query K2Manager { me { manager { id displayName ... on Person { status team { title } } ... on Robot { model owner { displayName } } } } }',
    'query K2Reports { me { reports { __typename displayName ... on Robot { model } } } }',
    'query K2History { me { status history } }',
    'query K2Members { team(id: "t") { members { ... on Person { id status manager { displayName } } ... on Robot { id model } } } }',
    'query K2MembersTypenameOnly { team(id: "t") { members { __typename } lead { __typename } } }',
    'query K2Things { things { total items { ... on Team { title members { ... on Person { displayName } } } ... on Person { displayName } } next { total next { total } } } }',
    'query K2ThingsOneMember { things(first: 1) { items { ... on Robot { model } } } }',
    'query K2NestedLists { members { ... on Person { displayName } ... on Robot { displayName model } } }',
    'query K2Actor($id: ID!) { actor(id: $id) { id ... on Person { reports { id ... on Person { reports { id } } } } } }',
    'query K2Aliases { boss: me { myTeam: team { teamTitle: title leader: lead { name: displayName } } } }',
    'query K2Directives($v: Boolean!) { me { displayName @include(if: $v) team @skip(if: $v) { title tags } } }',
    'query K2Tags { team(id: "t") { tags parent { tags } } }',
    'query K2Frag { me { ...PersonBits manager { ...ActorBits } } }\nfragment PersonBits on Person { id status team { ...TeamBits } }\nfragment TeamBits on Team { title lead { ...ActorBits } }\nfragment ActorBits on Actor { id displayName }',
    'query K2FragOnUnionMember { team(id: "t") { members { ...RobotBits ... on Person { id } } } }\nfragment RobotBits on Robot { model owner { id } }',
    'mutation K2Rename($id: ID!, $to: String!) { rename(id: $id, to: $to) { id displayName ... on Person { status } } }',
    'mutation K2Disband($id: ID!) { disband(id: $id) { id members { __typename } } }',
    'query K2Solo { solo { ... on Robot { model } } solos { ... on Robot { id } } soloOpt { __typename } }',
    'query K2SoloTypenameOnly { solo { __typename } solos { __typename } }',
    'query K2AliasedTypenameOnObject { me { kind: __typename id team { tn: __typename title } } }',
    'query K2EnumEverywhere { me { status reports { ... on Person { status history } } } }',
]


def k2_ops():
    out = []
    for text in K2_OPS:
        name = text.split("(")[0].split("{")[0].split()[1]
        out.append(Op(name, text.split("\n")[0], text + "\n", {"family:K2", f"k2:{name}"}, "$v" in text, set(), "k2"))
    return out


K2_OWN = {"Entity": "id", "Actor": "displayName", "Person": "status", "Robot": "model", "Team": "title", "Member": "__typename", "Thing": "__typename"}
K2_POS = [("Person", "me", "{}"), ("Actor", 'actor(id: "1")', "{}"), ("Entity", 'entity(id: "1")', "{}"), ("Team", 'team(id: "t")', "{}"),
          ("Thing", "things", "{{ items {} }}"), ("Member", 'team(id: "t")', "{{ members {} }}")]


def k2_matrix(level=2):
    """Typed spread matrix over K2: every position type P x every fragment type F overlapping P x every type G overlapping F,
    in the shapes direct spread / inline fragment / fragment-in-fragment / fragment-in-inline / inline-in-fragment; plus every
    two-operation document in which both operations spread the same fragment (state shared between operations)."""
    from graphql import do_types_overlap
    sch = schema_k2()
    T = {n: sch.type_map[n] for n in K2_OWN}
    out = []

    def kind(n):
        from graphql import is_interface_type, is_union_type
        return "u" if is_union_type(T[n]) else "i" if is_interface_type(T[n]) else "o"

    def rel(a, b):
        """how type b relates to type a: same / super (b is an abstract type a belongs to or implements) / sub / sibling (merely overlapping)"""
        from graphql import is_abstract_type
        if a == b:
            return "same"
        if is_abstract_type(T[b]) and sch.is_sub_type(T[b], T[a]):
            return "super"
        if is_abstract_type(T[a]) and sch.is_sub_type(T[a], T[b]):
            return "sub"
        return "sibling"

    def add(name, body, frs, tags):
        text = f"query {name} {body}"
        out.append(Op(name, text, "\n".join([text] + frs) + "\n", {"family:K2", "k2matrix"} | tags, False, set(), "k2"))
    k = 0
    for P, field, wrap in K2_POS:
        def at(sel):
            return "{ " + field + " " + wrap.format("{ " + sel + " }").replace("{{", "{").replace("}}", "}") + " }"
        for F in K2_OWN:
            if not do_types_overlap(sch, T[P], T[F]):
                continue
            r1 = f"{kind(P)}>{rel(P, F)}_{kind(F)}"
            base = {f"pos:{P}", f"frag:{F}", f"m:{P}>{F}", f"rel:{r1}"}
            k += 1
            add(f"M{k}", at("...FA"), [f"fragment FA on {F} {{ {K2_OWN[F]} }}"], (base - {f"rel:{r1}"}) | {"shape:spread", f"rel:spread:{r1}"})
            k += 1
            add(f"M{k}", at(f"... on {F} {{ {K2_OWN[F]} }}"), [], (base - {f"rel:{r1}"}) | {"shape:inline", f"rel:inline:{r1}"})
            if level < 2:
                continue
            for G in K2_OWN:
                if not do_types_overlap(sch, T[F], T[G]):
                    continue
                t2 = (base - {f"rel:{r1}"}) | {f"inner:{G}", f"m:{P}>{F}>{G}"}
                r2 = f"{r1}>{rel(F, G)}_{kind(G)}"
                k += 1
                add(f"M{k}", at("...FA"), [f"fragment FA on {F} {{ {K2_OWN[F]} ...FB }}", f"fragment FB on {G} {{ {K2_OWN[G]} id }}" if G in ("Person", "Robot", "Team", "Entity", "Actor") else f"fragment FB on {G} {{ {K2_OWN[G]} }}"],
                    t2 | {"shape:spread>spread", f"rel:spread>spread:{r2}"})
                if do_types_overlap(sch, T[P], T[G]):
                    k += 1
                    add(f"M{k}", at(f"... on {F} {{ ...FB }}"), [f"fragment FB on {G} {{ {K2_OWN[G]} }}"], t2 | {"shape:inline>spread", f"rel:inline>spread:{r2}"})
                k += 1
                add(f"M{k}", at("...FA"), [f"fragment FA on {F} {{ {K2_OWN[F]} ... on {G} {{ {K2_OWN[G]} }} }}"], t2 | {"shape:spread>inline", f"rel:spread>inline:{r2}"})
                if F == P:
                    # the inline fragment sits two named spreads below the position
                    k += 1
                    add(f"M{k}", at("...FA"), [f"fragment FA on {F} {{ {K2_OWN[F]} ...FMid }}", f"fragment FMid on {F} {{ ... on {G} {{ {K2_OWN[G]} }} }}"],
                        t2 | {"shape:spread>spread>inline", f"rel:spread>spread>inline:{r2}"})
    # ONE operation visiting the same abstract type at two positions with different selections, in both orders (state kept per type
    # between positions of one operation), and one fragment spread at two positions of one operation where it plays two roles
    two_pos = {"Actor": ('actor(id: "1") {sel}', 'lead: team(id: "t") {{ lead {sel} }}'), "Entity": ('entity(id: "1") {sel}', 'e2: entity(id: "2") {sel}'),
               "Thing": ("things {{ items {sel} }}", "t2: things(first: 1) {{ items {sel} }}")}
    sels = {"Actor": ["{ ... on Person { status } }", "{ displayName }", "{ ... on Robot { model } displayName }"],
            "Entity": ["{ ... on Team { title } }", "{ id }", "{ ... on Actor { displayName } id }", "{ ... on Person { status } ... on Robot { model } }"],
            "Thing": ["{ ... on Team { title } }", "{ __typename }", "{ ... on Person { status } ... on Robot { model } }"]}
    for P, (t1, t2) in two_pos.items():
        for a in sels[P]:
            for b in sels[P]:
                if a == b:
                    continue
                k += 1
                add(f"M{k}", "{ " + t1.format(sel=a) + " " + t2.format(sel=b) + " }", [], {f"pos:{P}", "shape:same_type_two_positions", f"twopos:{P}:{sels[P].index(a)}>{sels[P].index(b)}"})
    for F in ("Entity", "Actor"):
        poss = [(P, field, wrap) for P, field, wrap in K2_POS if do_types_overlap(sch, T[P], T[F]) and P in ("Person", "Actor", "Entity", "Team")]
        for (P1, f1, w1) in poss:
            for (P2, f2, w2) in poss:
                if P1 == P2:
                    continue
                k += 1
                b1 = f1 + " " + w1.format("{ ...FR }").replace("{{", "{").replace("}}", "}")
                b2 = "second: " + f2 + " " + w2.format("{ ...FR }").replace("{{", "{").replace("}}", "}")
                add(f"M{k}", "{ " + b1 + " " + b2 + " }", [f"fragment FR on {F} {{ {K2_OWN[F]} }}"], {f"frag:{F}", "shape:one_fragment_two_positions", f"m1:{P1}+{P2}>{F}"})
    # two operations sharing one fragment; the operation generated second is the one evaluated
    shared = [("FS", F, f"fragment FS on {F} {{ {K2_OWN[F]} }}") for F in K2_OWN] + \
             [("FSI", F, f"fragment FSI on {F} {{ {K2_OWN[F]} ... on Robot {{ model }} }}") for F in ("Entity", "Actor", "Member", "Thing")]
    for fname, F, ftext in shared:
        poss = [(P, field, wrap) for P, field, wrap in K2_POS if do_types_overlap(sch, T[P], T[F])]
        for (P1, f1, w1) in poss:
            for (P2, f2, w2) in poss:
                k += 1
                a = "{ " + f1 + " " + w1.format("{ ..." + fname + " }").replace("{{", "{").replace("}}", "}") + " }"
                b = "{ " + f2 + " " + w2.format("{ ..." + fname + " }").replace("{{", "{").replace("}}", "}") + " }"
                name = f"M{k}"
                text = f"query {name}First {a}\nquery {name} {b}"
                out.append(Op(name, text, text + "\n" + ftext + "\n", {"family:K2", "k2matrix", "shape:two_ops_shared_fragment", f"frag:{F}", f"m2:{P1}+{P2}>{F}", f"rel2:{kind(P1)}>{rel(P1, F)}+{kind(P2)}>{rel(P2, F)}_{kind(F)}",
                                                                       "shared_with_inline" if fname == "FSI" else "shared_plain"}, False, set(), "k2"))
    return out


def k2_kwargs(op):
    """Argument assignments for a K2 operation: canonical values, Boolean directive variables both ways."""
    from graphql import parse
    doc = parse(op.doc_text)
    d = next(x for x in doc.definitions if x.kind == "operation_definition")
    outs = [{}]
    for v in d.variable_definitions or ():
        t = v.type
        while t.kind != "named_type":
            t = t.type
        n = v.variable.name.value
        vals = {"ID": ["id1"], "String": ["s"], "Boolean": [True, False], "Int": [1]}[t.name.value]
        outs = [dict(o, **{n: x}) for o in outs for x in vals]
    return outs


def fragment_overlap_ops():
    """A named fragment spread NEXT TO direct selections of response keys the fragment also selects: the same selection, a superset
    sub-selection, an unconditional selection of a key the fragment selects conditionally - at object, nested and abstract positions.
    (Every document is valid: overlapping fields can be merged.)"""
    F = {
        "OvA": "fragment OvA on User { id friend { id } }",
        "OvCond": "fragment OvCond on User { id name @include(if: $v) active @skip(if: $v) friend @include(if: $v) { id } }",
        "OvNode": "fragment OvNode on Node { id }",
        "OvDeep": "fragment OvDeep on User { friend { friend { id } } }",
    }
    specs = [
        ("OvSame", "user", "...OvA friend { id } id", ("OvA",), False, {"overlap:same_selection"}),
        ("OvSuperset", "user", "...OvA friend { id name kind }", ("OvA",), False, {"overlap:superset_subselection"}),
        ("OvSupersetReq", "userReq", "...OvA friend { id active HTTPCode }", ("OvA",), False, {"overlap:superset_subselection"}),
        ("OvSupersetFirst", "user", "friend { id name kind } ...OvA", ("OvA",), False, {"overlap:superset_subselection", "overlap:direct_first"}),
        ("OvNested", "user", "friend { ...OvA friend { id name } }", ("OvA",), False, {"overlap:superset_subselection", "overlap:nested"}),
        ("OvDeeper", "user", "...OvDeep friend { friend { id kind } name }", ("OvDeep",), False, {"overlap:superset_subselection", "overlap:two_levels"}),
        ("OvUncond", "user", "...OvCond name active", ("OvCond",), True, {"overlap:unconditional_next_to_conditional"}),
        ("OvUncondComposite", "userReq", "...OvCond friend { id name }", ("OvCond",), True, {"overlap:unconditional_next_to_conditional", "overlap:superset_subselection"}),
        ("OvAbstract", "node", "...OvNode id ... on User { name }", ("OvNode",), False, {"overlap:same_selection", "overlap:abstract"}),
        ("OvAbstractInline", "node", "...OvNode ... on User { id name friend { id } ...OvA }", ("OvNode", "OvA"), False, {"overlap:same_selection", "overlap:abstract", "overlap:inside_inline"}),
        ("OvList", "nodes", "...OvNode ... on User { ...OvA friend { id name } }", ("OvNode", "OvA"), False, {"overlap:superset_subselection", "overlap:abstract"}),
    ]
    out = []
    for name, pos, sel, frags, var, tags in specs:
        head = f"query {name}($v: Boolean!)" if var else f"query {name}"
        text = f"{head} {{ {pos} {{ {sel} }} }}"
        doc = text + "\n" + "\n".join(F[f] for f in frags) + "\n"
        assert is_valid(schema_k(), doc), doc
        out.append(Op(name, text, doc, set(tags) | {"family:fragment_overlap", f"pos:{pos}"}, var, set(), pos))
    return out
