"""Access to the four bundled base clients, stub tracer, and helpers to drive clients
through httpx.MockTransport."""
from __future__ import annotations

import asyncio
import contextlib
import importlib
import json

import httpx

DEP = "ariadne_codegen.client_generators.dependencies"
BUNDLED = {
    "async": (f"{DEP}.async_base_client", "AsyncBaseClient", True, False),
    "sync": (f"{DEP}.base_client", "BaseClient", False, False),
    "async_ot": (f"{DEP}.async_base_client_open_telemetry", "AsyncBaseClientOpenTelemetry", True, True),
    "sync_ot": (f"{DEP}.base_client_open_telemetry", "BaseClientOpenTelemetry", False, True),
}


def bundled_class(kind):
    modname, cls, _, _ = BUNDLED[kind]
    return getattr(importlib.import_module(modname), cls)


def dep_module(name):
    return importlib.import_module(f"{DEP}.{name}")


class StubSpan:
    def __init__(self, tracer, name):
        self.tracer, self.name, self.attrs = tracer, name, {}

    def set_attribute(self, k, v):
        self.attrs[k] = v

    def get_span_context(self):  # used by set_span_in_context -> not required
        from opentelemetry.trace import INVALID_SPAN_CONTEXT
        return INVALID_SPAN_CONTEXT

    def is_recording(self):
        return True

    def __getattr__(self, item):  # any other Span API is a no-op
        def _noop(*a, **k):
            return None
        return _noop


class StubTracer:
    """Minimal recording tracer (duck-typed opentelemetry Tracer)."""

    def __init__(self):
        self.spans = []

    def __bool__(self):
        return True

    @contextlib.contextmanager
    def start_as_current_span(self, name, context=None, **kw):
        s = StubSpan(self, name)
        self.spans.append(s)
        yield s

    def start_span(self, name, context=None, **kw):
        s = StubSpan(self, name)
        self.spans.append(s)
        return s


TRACER_VARIANTS = ("none", "noop", "stub")


def tracer_kwargs(kind, variant):
    if not BUNDLED[kind][3] or variant == "none":
        return {}
    if variant == "noop":
        return {"tracer": "verif-noop"}
    return {"tracer": StubTracer()}


def make_client(cls, is_async, handler, **kwargs):
    tr = httpx.MockTransport(handler)
    http = httpx.AsyncClient(transport=tr) if is_async else httpx.Client(transport=tr)
    return cls(url="http://verif.invalid/graphql", http_client=http, **kwargs)


def call(is_async, fn, *a, **k):
    """Call a client method that may be a coroutine function."""
    if is_async:
        return asyncio.run(fn(*a, **k))
    return fn(*a, **k)
