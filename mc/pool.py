"""Fork-per-case worker pool.

The parent imports everything heavy once (warm zygote).  `run_cases(func, cases)` starts
N long-lived workers by fork; every worker takes the next case index from a shared counter
and runs `func(case)` in a *freshly forked child* (ariadne-codegen mutates module-level AST
constants during generation, so two generations must never share a process).  The child
sends its JSON-able result through a pipe and _exits.  Results come back in case order.
"""
from __future__ import annotations

import multiprocessing as mp
import os
import pickle
import select
import signal
import sys
import time
import traceback
import warnings

warnings.filterwarnings('ignore', message='.*multi-threaded, use of fork.*')

NWORKERS = int(os.environ.get("VERIF_WORKERS", "0")) or min(16, os.cpu_count() or 4)


def _child_run(func, case, wfd):
    try:
        try:
            res = ("ok", func(case))
        except BaseException as e:  # noqa
            res = ("exc", f"{type(e).__name__}: {e}\n{traceback.format_exc()[-3000:]}")
        data = pickle.dumps(res)
    except BaseException as e:  # noqa
        data = pickle.dumps(("exc", f"unpicklable result: {e!r}"))
    try:
        with os.fdopen(wfd, "wb") as f:
            f.write(data)
    finally:
        os._exit(0)


def run_forked(func, case, timeout=120):
    """Run func(case) in a forked child; return ('ok', result) | ('exc', text) | ('timeout', None)."""
    rfd, wfd = os.pipe()
    sys.stdout.flush()
    sys.stderr.flush()
    with warnings.catch_warnings():
        warnings.simplefilter('ignore')
        pid = os.fork()
    if pid == 0:
        os.close(rfd)
        try:
            os.setpgrp()
        except Exception:
            pass
        _child_run(func, case, wfd)
    os.close(wfd)
    chunks = []
    deadline = time.time() + timeout
    status = None
    with os.fdopen(rfd, "rb") as f:
        while True:
            left = deadline - time.time()
            if left <= 0:
                status = "timeout"
                break
            r, _, _ = select.select([f], [], [], min(left, 1.0))
            if r:
                b = os.read(f.fileno(), 1 << 16)
                if not b:
                    break
                chunks.append(b)
    if status == "timeout":
        try:
            os.killpg(pid, signal.SIGKILL)
        except Exception:
            try:
                os.kill(pid, signal.SIGKILL)
            except Exception:
                pass
    os.waitpid(pid, 0)
    if status == "timeout":
        return ("timeout", None)
    data = b"".join(chunks)
    if not data:
        return ("exc", "child died without result")
    try:
        return pickle.loads(data)
    except Exception as e:  # noqa
        return ("exc", f"bad result pickle: {e!r}")


def _worker(func, cases, counter, outq, timeout):
    while True:
        with counter.get_lock():
            i = counter.value
            counter.value += 1
        if i >= len(cases):
            break
        res = run_forked(func, cases[i], timeout)
        outq.put((i, res))
    outq.put(None)


def run_cases(func, cases, workers=None, timeout=120, progress=None):
    """Return list of results (status, value) in case order."""
    cases = list(cases)
    if not cases:
        return []
    n = min(workers or NWORKERS, len(cases))
    ctx = mp.get_context("fork")
    counter = ctx.Value("i", 0)
    outq = ctx.Queue()
    procs = [ctx.Process(target=_worker, args=(func, cases, counter, outq, timeout), daemon=True) for _ in range(n)]
    sys.stdout.flush()
    for p in procs:
        p.start()
    results = [None] * len(cases)
    done_workers = 0
    got = 0
    while done_workers < n:
        item = outq.get()
        if item is None:
            done_workers += 1
            continue
        i, res = item
        results[i] = res
        got += 1
        if progress and got % progress == 0:
            print(f"  .. {got}/{len(cases)}", file=sys.stderr, flush=True)
    for p in procs:
        p.join()
    for i, r in enumerate(results):
        if r is None:
            results[i] = ("exc", "worker lost the case")
    return results
