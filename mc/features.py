"""Structural features of an operation document (used for known-finding signatures)."""
from __future__ import annotations

from graphql import get_named_type, is_abstract_type, is_interface_type, is_union_type, is_object_type, parse


def op_features(schema, doc_text):
    doc = parse(doc_text)
    frags = {d.name.value: d for d in doc.definitions if d.kind == "fragment_definition"}
    feats = set()
    spread_rels = {}

    def tkind(t):
        if t is None:
            return "none"
        return "union" if is_union_type(t) else "interface" if is_interface_type(t) else "object"

    def absrel(ct, ptype):
        """for two different abstract types: ct is a super-type of ptype ("super"), a sub-type ("sub") or merely overlapping ("")."""
        if not (is_abstract_type(ct) and is_abstract_type(ptype)) or ct is ptype:
            return ""
        if schema.is_sub_type(ct, ptype):
            return "super"
        if schema.is_sub_type(ptype, ct):
            return "sub"
        return ""

    def sel(ss, ptype, in_inline, top_of_field):
        """ptype: named type the selection set is evaluated against."""
        keys = {}
        if is_abstract_type(ptype):
            spreads_same = [x for x in ss.selections if x.kind == "fragment_spread" and x.name.value in frags
                            and is_abstract_type(schema.get_type(frags[x.name.value].type_condition.name.value))]
            others = [x for x in ss.selections if (x.kind == "inline_fragment" and x.type_condition is not None and schema.get_type(x.type_condition.name.value) is not ptype)
                      or (x.kind == "fragment_spread" and x.name.value in frags and (schema.get_type(frags[x.name.value].type_condition.name.value) is not ptype
                          or any(y.kind == "inline_fragment" for y in frags[x.name.value].selection_set.selections)))]
            if any(a is not b for a in spreads_same for b in others):
                feats.add("abstract_spread_with_subtype_sibling")
        for s in ss.selections:
            if s.kind == "field":
                name = s.name.value
                key = s.alias.value if s.alias else name
                keys.setdefault(key, []).append(s)
                if name == "__typename":
                    if s.alias and is_abstract_type(ptype):
                        feats.add("aliased_typename@abstract")
                    if not s.alias and in_inline:
                        feats.add("typename_inside_fragment")
                    continue
                if s.directives:
                    feats.add("field_directive")
                ft = None
                if hasattr(ptype, "fields") and name in ptype.fields:
                    ft = get_named_type(ptype.fields[name].type)
                if s.selection_set:
                    sel(s.selection_set, ft, False, True)
            elif s.kind == "inline_fragment":
                if s.directives:
                    feats.add("inline_directive")
                if s.type_condition is None:
                    feats.add("inline_no_typecond")
                    sel(s.selection_set, ptype, True, False)
                    continue
                ct = schema.get_type(s.type_condition.name.value)
                if in_inline:
                    # directly inside a fragment definition (top_of_field == "fragment_def") vs inside another inline fragment
                    pre = "inline_in_fragment_def" if top_of_field == "fragment_def" else "nested_inline"
                    feats.add(pre)
                    if in_inline is not True and in_inline is not ct:
                        feats.add(pre + "_typechange")
                if is_abstract_type(ptype):
                    if ct is ptype:
                        feats.add("inline_on_same_abstract")
                    elif is_abstract_type(ct):
                        feats.add(f"inline_on_{absrel(ct, ptype)}{tkind(ct)}@{tkind(ptype)}")
                    else:
                        feats.add(f"inline_on_object@{tkind(ptype)}")
                else:
                    if ct is ptype:
                        feats.add("inline_on_same_object")
                    else:
                        feats.add(f"inline_on_{tkind(ct)}@object")
                sel(s.selection_set, ct, ct, False)
            elif s.kind == "fragment_spread":
                if s.directives:
                    feats.add("spread_directive")
                fd = frags.get(s.name.value)
                if fd is None:
                    continue
                ct = schema.get_type(fd.type_condition.name.value)
                if in_inline:
                    feats.add("spread_inside_inline")
                rel = "same" if ct is ptype else ("sub" if is_abstract_type(ptype) and not is_abstract_type(ct) else
                                                  "super" if is_abstract_type(ct) and not is_abstract_type(ptype) else
                                                  (absrel(ct, ptype) + "abstract") if absrel(ct, ptype) else "other_abstract")
                feats.add(f"spread_{rel}_{tkind(ct)}@{tkind(ptype)}")
                spread_rels.setdefault(s.name.value, set()).add(rel)
                if any(x.kind == "inline_fragment" for x in fd.selection_set.selections):
                    feats.add("spread_of_fragment_with_inline")
                if any(x.kind == "fragment_spread" for x in fd.selection_set.selections):
                    feats.add("spread_of_fragment_with_spread")
        return keys

    def collect_keys(ss, acc, depth=0):
        """response keys reachable in the same object scope (through fragments), with their nodes."""
        for s in ss.selections:
            if s.kind == "field":
                acc.setdefault(s.alias.value if s.alias else s.name.value, []).append((s, depth))
            elif s.kind == "inline_fragment":
                collect_keys(s.selection_set, acc, depth + 1)
            elif s.kind == "fragment_spread" and s.name.value in frags:
                collect_keys(frags[s.name.value].selection_set, acc, depth + 1)

    def scopes(ss, ptype):
        acc = {}
        collect_keys(ss, acc)
        for key, nodes in acc.items():
            if len(nodes) > 1:
                feats.add("dup_response_key")
                if any(n.selection_set for n, _ in nodes):
                    feats.add("dup_composite_key")
                if len({d for _, d in nodes}) > 1:
                    feats.add("dup_key_across_fragment_levels")
                else:
                    feats.add("dup_key_same_level")
                if any(n.directives for n, _ in nodes):
                    feats.add("dup_key_with_directive")
            for n, _ in nodes:
                if n.selection_set:
                    scopes(n.selection_set, None)

    for d in doc.definitions:
        if d.kind == "operation_definition":
            root = schema.get_root_type(d.operation)
            sel(d.selection_set, root, False, True)
            scopes(d.selection_set, root)
        elif d.kind == "fragment_definition":
            ct = schema.get_type(d.type_condition.name.value)
            feats.add(f"fragment_on_{tkind(ct)}")
            sel(d.selection_set, ct, ct, "fragment_def")
    for fname, rels in spread_rels.items():
        if "same" in rels and fname in frags:
            def has_abstract_field(ss, t):
                for x in ss.selections:
                    if x.kind == "field" and x.selection_set is not None and hasattr(t, "fields") and x.name.value in t.fields:
                        ft = get_named_type(t.fields[x.name.value].type)
                        if is_abstract_type(ft) or has_abstract_field(x.selection_set, ft):
                            return True
                return False
            if has_abstract_field(frags[fname].selection_set, schema.get_type(frags[fname].type_condition.name.value)):
                feats.add("abstract_field_in_mixin_fragment")
        if "same" in rels and len(rels) > 1:
            feats.add("fragment_same_and_other_type_spread")
    return feats
