"""Choice-point explorer: stateless DFS over the tree of `choose(n)` decisions of a run
function, bounded by the number of deviations from the default answer (choice 0).

    run(choose) -> observation         # real code, asks choose(n) at every decision

`explore(run, bound)` executes run with every choice sequence having at most `bound`
non-zero choices (bound=None: the whole tree).  A replayed prefix must see the same menu
sizes as when it was recorded, otherwise Divergence is raised (a broken check, never a
property violation).
"""
from __future__ import annotations


class Divergence(Exception):
    pass


class Capped(Exception):
    pass


class Chooser:
    def __init__(self, prefix, expect_sizes=None):
        self.prefix = list(prefix)
        self.expect = expect_sizes
        self.choices = []
        self.sizes = []
        self.labels = []

    def __call__(self, n, label=None):
        i = len(self.choices)
        if n <= 0:
            raise ValueError("empty menu")
        if i < len(self.prefix):
            c = self.prefix[i]
            if self.expect is not None and i < len(self.expect) and self.expect[i] != n:
                raise Divergence(f"choice point {i}: menu size {n} != recorded {self.expect[i]}")
            if c >= n:
                raise Divergence(f"choice point {i}: choice {c} out of range {n}")
        else:
            c = 0
        self.choices.append(c)
        self.sizes.append(n)
        self.labels.append(label)
        return c


def explore(run, bound=None, max_runs=None, on_result=None):
    """Yield (choices, sizes, observation) for every execution within the bound.

    Returns stats dict via the generator's return value is awkward; use Explorer class.
    """
    ex = Explorer(run, bound=bound, max_runs=max_runs)
    return ex.run_all(on_result)


class Explorer:
    def __init__(self, run, bound=None, max_runs=None):
        self.run = run
        self.bound = bound
        self.max_runs = max_runs
        self.runs = 0
        self.capped = False
        self.max_depth = 0
        self.choice_points = 0
        self.transitions = 0

    def _exec(self, prefix, expect):
        ch = Chooser(prefix, expect)
        obs = self.run(ch)
        if len(ch.choices) < len(prefix):
            raise Divergence(f"run ended after {len(ch.choices)} choice points, prefix has {len(prefix)}")
        return ch, obs

    def run_all(self, on_result=None):
        results = []
        stack = [([], None)]
        while stack:
            prefix, expect = stack.pop()
            if self.max_runs is not None and self.runs >= self.max_runs:
                self.capped = True
                break
            ch, obs = self._exec(prefix, expect)
            self.runs += 1
            self.max_depth = max(self.max_depth, len(ch.choices))
            self.transitions += len(ch.choices) - len(prefix) + (1 if prefix else 0)
            item = (tuple(ch.choices), tuple(ch.sizes), obs)
            if on_result is not None:
                on_result(*item)
            else:
                results.append(item)
            devs = sum(1 for c in ch.choices[: len(prefix)] if c != 0)
            # branch on every later choice point (children pushed in reverse for simplest-first order)
            children = []
            for i in range(len(prefix), len(ch.choices)):
                if self.bound is not None and devs + 1 > self.bound:
                    break
                for alt in range(1, ch.sizes[i]):
                    children.append((ch.choices[:i] + [alt], ch.sizes[: i + 1]))
            stack.extend(reversed(children))
        return results

    def stats(self):
        return {
            "runs": self.runs,
            "bound": self.bound,
            "capped": self.capped,
            "max_choice_depth": self.max_depth,
            "exhaustive_within_bound": not self.capped,
        }
