"""Input-side machinery shared by C03 / C06 / C07: symbolic values, reference wire format,
value menus derived from GraphQL input types, and a driver that calls generated methods through
MockTransport with a coercing + recording reference executor."""
from __future__ import annotations

import enum
import json

import httpx
from graphql import (
    GraphQLEnumType, GraphQLInputObjectType, build_schema, execute_sync, get_named_type, is_enum_type, is_input_object_type,
    is_list_type, is_non_null_type, is_scalar_type, parse, validate, Undefined,
)
from graphql.execution.values import get_variable_values

from . import clients, genpkg

OMIT = ("omit",)
NONE = ("none",)


# ------------------------------------------------------------------ value menus
def scalar_menu(t, custom=None):
    n = t.name
    if custom and n in custom:
        return [("custom", n, v) for v in custom[n]]
    return {
        "Int": [("lit", 3)], "Float": [("lit", 1.5), ("lit", 2)], "String": [("lit", "s"), ("lit", "")], "ID": [("lit", "id1")],
        "Boolean": [("lit", True), ("lit", False)],
    }.get(n, [("lit", {"k": [1, "x"]}), ("lit", "raw")])


def menu(t, depth=2, custom=None, breadth=3):
    """Schema-valid symbolic values for input type t (canonical form), simplest first."""
    if is_non_null_type(t):
        return menu_nn(t.of_type, depth, custom, breadth)
    return menu_nn(t, depth, custom, breadth) + [NONE]


def menu_nn(t, depth, custom, breadth):
    if is_list_type(t):
        items = menu(t.of_type, depth, custom, breadth)
        out = [("list", ())]
        for x in items[:breadth]:
            out.append(("list", (x,)))
        if len(items) >= 2:
            out.append(("list", (items[0], items[-1])))
            out.append(("list", (items[-1], items[0])))
        return out
    if is_enum_type(t):
        return [("enum", t.name, v) for v in t.values]
    if is_scalar_type(t):
        return scalar_menu(t, custom)
    if is_input_object_type(t):
        return input_menu(t, depth, custom, breadth)
    raise ValueError(t)


def input_menu(t, depth, custom, breadth):
    req = [(n, f) for n, f in t.fields.items() if is_non_null_type(f.type) and f.default_value is Undefined]
    opt = [(n, f) for n, f in t.fields.items() if (n, f) not in req]
    if depth <= 0:
        sub = lambda f: [m for m in menu(f.type, 0, custom, 1) if not _has_input(m)][:1] or [NONE]
    else:
        sub = lambda f: menu(f.type, depth - 1, custom, 2)
    base = {}
    for n, f in req:
        ms = sub(f) if depth > 0 else [m for m in menu(f.type, 0, custom, 1)][:1]
        if not ms:
            return []
        base[n] = ms[0]
    out = [("input", t.name, tuple(base.items()))]
    for n, f in opt:
        if depth <= 0 and is_input_object_type(get_named_type(f.type)):
            vals = [NONE] if not is_non_null_type(f.type) else []
        else:
            vals = sub(f)[:2]
            if not is_non_null_type(f.type) and NONE not in vals:
                vals = vals + [NONE]
        for v in vals:
            out.append(("input", t.name, tuple(list(base.items()) + [(n, v)])))
    # two optional fields together, and everything set
    if len(opt) >= 2 and depth > 0:
        full = dict(base)
        for n, f in opt:
            vs = sub(f)
            if vs:
                full[n] = vs[0]
        out.append(("input", t.name, tuple(full.items())))
    # alternative values for required fields
    for n, f in req:
        for v in (sub(f) if depth > 0 else [])[1:3]:
            d = dict(base)
            d[n] = v
            out.append(("input", t.name, tuple(d.items())))
    return out


def _has_input(spec):
    return spec[0] == "input" or (spec[0] == "list" and any(_has_input(x) for x in spec[1]))


# ------------------------------------------------------------------ symbolic -> python / wire
class CallLog(list):
    pass


def ref_wire(spec, custom_wire=None):
    k = spec[0]
    if k == "lit":
        return spec[1]
    if k == "none":
        return None
    if k == "enum":
        return spec[2]
    if k == "list":
        return [ref_wire(x, custom_wire) for x in spec[1]]
    if k == "input":
        return {n: ref_wire(v, custom_wire) for n, v in spec[2]}
    if k == "custom":
        return custom_wire(spec[1], spec[2]) if custom_wire else spec[2]
    raise ValueError(spec)


def alias_map(cls):
    return {(fi.alias or n): n for n, fi in cls.model_fields.items()}


def build(spec, pkg, custom_build=None):
    k = spec[0]
    if k == "lit":
        return spec[1]
    if k == "none":
        return None
    if k == "enum":
        E = getattr(pkg, spec[1])
        for m in E:
            if m.value == spec[2]:
                return m
        raise LookupError(f"enum {spec[1]} has no member with value {spec[2]}")
    if k == "list":
        return [build(x, pkg, custom_build) for x in spec[1]]
    if k == "input":
        cls = getattr(pkg, spec[1])
        am = alias_map(cls)
        return cls(**{am[n]: build(v, pkg, custom_build) for n, v in spec[2]})
    if k == "custom":
        return custom_build(spec[1], spec[2])
    raise ValueError(spec)


def wire_by_graphql_names(spec, custom_wire=None):
    return ref_wire(spec, custom_wire)


# ------------------------------------------------------------------ reference executor with recording resolver
def run_reference(schema, query, variables, operation_name=None):
    """Coerce + execute; returns (coercion_errors, recorded args list, execution errors)."""
    doc = parse(query)
    op = next(d for d in doc.definitions if d.kind == "operation_definition" and (operation_name is None or (d.name and d.name.value == operation_name)))
    coerced = get_variable_values(schema, op.variable_definitions or [], variables or {})
    if isinstance(coerced, list):
        return [e.message for e in coerced], None, None
    rec = []

    def resolver(source, info, **args):
        rec.append((info.field_name, jsonable(args)))
        return "ok"
    res = execute_sync(schema, doc, variable_values=variables or {}, operation_name=operation_name, field_resolver=resolver)
    return [], rec, [e.message for e in (res.errors or [])]


def jsonable(v):
    if isinstance(v, dict):
        return {k: jsonable(x) for k, x in v.items()}
    if isinstance(v, (list, tuple)):
        return [jsonable(x) for x in v]
    if isinstance(v, enum.Enum):
        return v.value
    return v


def call_and_capture(mod, client_cls, is_async, method_name, kwargs, data=None, client_kwargs=None):
    captured = []

    def handler(request):
        captured.append(json.loads(request.content))
        return httpx.Response(200, json={"data": data if data is not None else {}})
    c = clients.make_client(client_cls, is_async, handler, **(client_kwargs or {}))
    try:
        r = clients.call(is_async, getattr(c, method_name), **kwargs)
        return captured, ("ok", r)
    except BaseException as e:  # noqa
        return captured, ("exc", e)


def call_and_capture_ws(mod, mods, client_cls, method_name, kwargs, client_kwargs=None, data=None):
    """Subscription counterpart of call_and_capture: scripted in-memory graphql-transport-ws connection
    (ack, then complete); returns the payloads of the subscribe frames the client sent."""
    import asyncio

    class _FakeWS:
        def __init__(self):
            self.sent, self.frames, self.closed = [], ['{"type": "connection_ack"}', '{"type": "complete", "id": "x"}'], False
            if data is not None:
                self.frames.insert(1, json.dumps({"type": "next", "id": "x", "payload": {"data": data}}))

        async def send(self, m):
            self.sent.append(m)

        async def recv(self):
            return self.frames.pop(0)

        def __aiter__(self):
            return self

        async def __anext__(self):
            if self.closed or not self.frames:
                raise StopAsyncIteration
            return self.frames.pop(0)

        async def close(self, *a, **k):
            self.closed = True

    ws = _FakeWS()
    yielded = []

    class _CM:
        async def __aenter__(self_):
            return ws

        async def __aexit__(self_, *e):
            return False
    base_mod = mods.get("async_base_client") or mods.get("async_base_client_open_telemetry")
    old = base_mod.ws_connect
    base_mod.ws_connect = lambda *a, **k: _CM()
    status = ("ok", None)
    try:
        c = client_cls(ws_url="ws://verif.invalid", **(client_kwargs or {}))

        async def drain():
            async for item in getattr(c, method_name)(**kwargs):
                yielded.append(item)
        try:
            asyncio.run(drain())
            status = ("ok", yielded)
        except BaseException as e:  # noqa
            status = ("exc", e)
    finally:
        base_mod.ws_connect = old
    subs = []
    for m in ws.sent:
        try:
            j = json.loads(m)
        except Exception:  # noqa
            continue
        if j.get("type") == "subscribe":
            body = dict(j.get("payload") or {})
            body.setdefault("variables", {})
            subs.append(body)
    return subs, status
