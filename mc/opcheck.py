"""Evaluate one operation case end to end (runs inside a forked child):
generate -> import -> drive the generated method through MockTransport whose handler runs the
choice-driven reference executor on the query text actually received -> oracles of C01/C02/C05.
"""
from __future__ import annotations

import copy
import enum
import json
import typing

import httpx
from graphql import (
    build_schema, parse, validate, specified_rules, get_named_type, is_abstract_type, is_composite_type,
    is_enum_type, is_leaf_type, is_list_type, is_non_null_type, GraphQLNonNull, GraphQLList,
)
from graphql.utilities import ast_to_dict

from . import clients, genpkg, refexec
from .explorer import Explorer

_schemas = {}


def get_schema(text):
    if text not in _schemas:
        _schemas[text] = build_schema(text)
    return _schemas[text]


def client_kind(options):
    a = options.get("async_client", True)
    o = options.get("opentelemetry_client", False)
    return ("async" if a else "sync") + ("_ot" if o else "")


def find_method(client_cls, op_name):
    from ariadne_codegen.utils import str_to_snake_case
    import keyword
    n = str_to_snake_case(op_name)
    if keyword.iskeyword(n):
        n += "_"
    return n


# ------------------------------------------------------------------ C01 oracle
def enum_matches(v, raw):
    return isinstance(v, enum.Enum) and v.value == raw and v.name in (raw, raw + "_", raw.lower(), raw.upper())


def field_for_key(cls, key):
    for name, fi in cls.model_fields.items():
        if (fi.alias or name) == key:
            return name
    return None


def compare_value(path, raw, val, problems):
    """raw: JSON value from the executor; val: attribute value of the validated model."""
    import pydantic
    if isinstance(raw, dict) and isinstance(val, pydantic.BaseModel):
        compare_object(path, raw, val, problems)
    elif isinstance(raw, list):
        if not isinstance(val, list) or len(val) != len(raw):
            problems.append(("value_not_preserved", f"{fmt(path)}: list {raw!r} became {val!r}"))
            return
        for i, (r, v) in enumerate(zip(raw, val)):
            compare_value(path + (i,), r, v, problems)
    elif isinstance(val, enum.Enum):
        if not (isinstance(raw, str) and enum_matches(val, raw)):
            problems.append(("enum_member_mismatch", f"{fmt(path)}: {raw!r} became {val!r}"))
    else:
        if isinstance(val, pydantic.BaseModel) or val != raw or type(val) is not type(raw):
            problems.append(("value_not_preserved", f"{fmt(path)}: {raw!r} became {val!r}"))


SNAKE = {"on": True}


def expected_python_name(key):
    """Reference image of a response key as Python attribute name under the configuration of the case."""
    import keyword
    import pydantic
    from ariadne_codegen.utils import str_to_snake_case
    if key == "__typename":
        return "typename__"
    n = str_to_snake_case(key) if SNAKE["on"] else key
    if keyword.iskeyword(n):
        n += "_"
    if n in {a for a in dir(pydantic.BaseModel) if not a.startswith("_")}:
        n += "_"
    n = n.lstrip("_")
    if not n and set(key) == {"_"}:
        return "underscore_named_field_"
    return n


def compare_object(path, raw, obj, problems):
    cls = type(obj)
    for key, r in raw.items():
        name = field_for_key(cls, key)
        if name is not None and name != expected_python_name(key):
            problems.append(("python_name", f"{fmt(path + (key,))}: exposed as {name!r}, expected {expected_python_name(key)!r} (convert_to_snake_case={SNAKE['on']})"))
        if name is None:
            problems.append(("key_not_exposed", f"{fmt(path + (key,))}: response key has no field on {cls.__name__}"))
            continue
        if name not in obj.model_fields_set:
            problems.append(("key_not_exposed", f"{fmt(path + (key,))}: field {name} of {cls.__name__} not set from the response"))
            continue
        compare_value(path + (key,), r, getattr(obj, name), problems)


def fmt(path):
    return "$" + "".join(f"[{p}]" if isinstance(p, int) else f".{p}" for p in path)


def get_at(obj, path):
    import pydantic
    for p in path:
        if obj is None:
            return None
        if isinstance(p, int):
            obj = obj[p]
        elif isinstance(obj, pydantic.BaseModel):
            n = field_for_key(type(obj), p)
            if n is None:
                return None
            obj = getattr(obj, n)
        else:
            return None
    return obj


def literal_values(ann):
    out = set()
    if typing.get_origin(ann) is typing.Literal:
        out.update(typing.get_args(ann))
    else:
        for a in typing.get_args(ann) or ():
            out |= literal_values(a)
    return out


def check_c01(schema, doc, variables, data, result, problems):
    import pydantic
    compare_object((), data, result, problems)
    for pos in refexec.walk(schema, doc, variables, data):
        if not is_abstract_type(pos.static_type) or not isinstance(pos.data, dict):
            continue
        obj = get_at(result, pos.path)
        tn = pos.data.get("__typename")
        if not isinstance(obj, pydantic.BaseModel):
            problems.append(("abstract_position_not_model", f"{fmt(pos.path)}: {obj!r}"))
            continue
        fi = type(obj).model_fields.get("typename__")
        if fi is None:
            problems.append(("typename_literal", f"{fmt(pos.path)}: class {type(obj).__name__} has no typename__ field"))
        elif tn not in literal_values(fi.annotation):
            problems.append(("typename_literal", f"{fmt(pos.path)}: runtime type {tn} not in {fi.annotation} of {type(obj).__name__}"))
    try:
        dumped = result.model_dump(mode="json", by_alias=True, exclude_unset=True)
    except Exception as e:  # noqa
        problems.append(("dump_failed", f"{type(e).__name__}: {e}"))
    else:
        if dumped != data:
            problems.append(("dump_differs", f"dump {json.dumps(dumped, sort_keys=True)[:300]} != data {json.dumps(data, sort_keys=True)[:300]}"))


# ------------------------------------------------------------------ C02 oracle
def strip_loc(node):
    return norm_ast(node)


def is_plain_typename(sel):
    return (sel.kind == "field" and sel.name.value == "__typename" and sel.alias is None
            and not sel.directives and not sel.arguments)


def remove_mixin(node):
    node = copy.deepcopy(node)

    def rec(n):
        if hasattr(n, "directives") and n.directives:
            n.directives = tuple(d for d in n.directives if d.name.value != "mixin")
        ss = getattr(n, "selection_set", None)
        if ss:
            for s in ss.selections:
                rec(s)
    rec(node)
    return node


def undo_typename(schema, sent_def, auth_def, parent_type):
    """Return a copy of sent_def where automatic __typename selections (first, plain, parent field of
    abstract type, absent from the authored text at that place) are removed."""
    sent_def = copy.deepcopy(sent_def)

    def rec(s_ss, a_ss, ptype, field_abstract):
        if s_ss is None or a_ss is None:
            return
        sel = list(s_ss.selections)
        asel = list(a_ss.selections)
        if field_abstract and len(sel) == len(asel) + 1 and sel and is_plain_typename(sel[0]) \
                and not (asel and is_plain_typename(asel[0])):
            sel = sel[1:]
            s_ss.selections = tuple(sel)
        for s, a in zip(sel, asel):
            if s.kind != a.kind:
                continue
            if s.kind == "field":
                ft = None
                if ptype is not None and hasattr(ptype, "fields") and s.name.value in ptype.fields:
                    ft = get_named_type(ptype.fields[s.name.value].type)
                rec(s.selection_set, a.selection_set, ft, ft is not None and is_abstract_type(ft))
            elif s.kind == "inline_fragment":
                t = schema.get_type(s.type_condition.name.value) if s.type_condition else ptype
                rec(s.selection_set, a.selection_set, t, False)
    rec(sent_def.selection_set, auth_def.selection_set, parent_type, False)
    return sent_def


def reachable_fragments(op_def, frag_defs):
    out, todo = {}, [op_def]
    while todo:
        n = todo.pop()

        def rec(ss):
            if not ss:
                return
            for s in ss.selections:
                if s.kind == "fragment_spread":
                    nm = s.name.value
                    if nm not in out and nm in frag_defs:
                        out[nm] = frag_defs[nm]
                        todo.append(frag_defs[nm])
                else:
                    rec(getattr(s, "selection_set", None))
        rec(n.selection_set)
    return out


def check_c02(schema, authored_text, op_name, body, problems):
    """body: decoded JSON request body."""
    keys = set(body)
    if keys != {"query", "operationName", "variables"}:
        problems.append(("body_keys", f"body keys {sorted(keys)}"))
    q = body.get("query")
    try:
        sent = parse(q)
    except Exception as e:  # noqa
        problems.append(("sent_not_parseable", f"{type(e).__name__}: {e}"))
        return
    errs = validate(schema, sent, specified_rules)
    if errs:
        problems.append(("sent_invalid", "; ".join(e.message for e in errs)[:400]))
    ops = [d for d in sent.definitions if d.kind == "operation_definition"]
    if len(ops) != 1:
        problems.append(("single_operation", f"{len(ops)} operations in sent document"))
        return
    if body.get("operationName") != (ops[0].name.value if ops[0].name else None) or body.get("operationName") != op_name:
        problems.append(("operation_name", f"operationName={body.get('operationName')!r} operation={ops[0].name.value if ops[0].name else None!r} authored={op_name!r}"))
    auth = parse(authored_text)
    a_ops = {d.name.value: d for d in auth.definitions if d.kind == "operation_definition" and d.name}
    a_frags = {d.name.value: d for d in auth.definitions if d.kind == "fragment_definition"}
    a_op = a_ops.get(op_name)
    if a_op is None:
        problems.append(("operation_name", f"no authored operation {op_name}"))
        return
    a_op_clean = remove_mixin(a_op)
    root = schema.get_root_type(a_op.operation)
    s_op = undo_typename(schema, ops[0], a_op_clean, root)
    if strip_loc(s_op) != strip_loc(a_op_clean):
        from graphql import print_ast
        problems.append(("operation_altered", f"sent: {print_ast(ops[0])[:300]!r} authored: {print_ast(a_op_clean)[:300]!r}"))
    s_frags = {}
    for d in sent.definitions:
        if d.kind == "fragment_definition":
            if d.name.value in s_frags:
                problems.append(("fragment_duplicated", d.name.value))
            s_frags[d.name.value] = d
    want = reachable_fragments(a_op, a_frags)
    if set(s_frags) != set(want):
        problems.append(("fragment_set", f"sent fragments {sorted(s_frags)} != reachable {sorted(want)}"))
    for name in set(s_frags) & set(want):
        a_f = remove_mixin(want[name])
        t = schema.get_type(a_f.type_condition.name.value)
        s_f = undo_typename(schema, s_frags[name], a_f, t)
        if strip_loc(s_f) != strip_loc(a_f):
            from graphql import print_ast
            problems.append(("fragment_altered", f"{name}: sent {print_ast(s_frags[name])[:300]!r} authored {print_ast(a_f)[:300]!r}"))


# ------------------------------------------------------------------ driver
def evaluate_op(case):
    """case: dict(schema, doc_text, op_name, uses_var, options, bound, max_runs, checks=[...])
    returns dict(status, gen_error?, runs, problems=[(clause, detail, ctx)], sent_query, ...)"""
    schema_text = case["schema"]
    schema = get_schema(schema_text)
    options = case.get("options") or {}
    checks = set(case.get("checks") or ["c01"])
    SNAKE["on"] = options.get("convert_to_snake_case", True)
    if case.get("configured_scalars"):
        from . import strict as _strict
        _strict.CONFIGURED.update({k: (int, "Int") for k, v in case["configured_scalars"].items() if v == "int"})
    out = {"status": "ok", "runs": 0, "problems": [], "responses": 0, "capped": False, "outcomes": set()}
    problems = out["problems"]
    if case.get("validate", True):
        try:
            bad = validate(schema, parse(case["doc_text"]), specified_rules)
        except Exception:  # noqa
            bad = True
        if bad:
            out["status"] = "invalid_op"
            return out
    with genpkg.scratch() as d:
        if options.get("files_to_include"):
            import os
            options = dict(options, files_to_include=[os.path.join(d, p[1:]) if p.startswith("@") else p for p in options["files_to_include"]])
        try:
            pkg, pdir, _ = genpkg.generate(d, schema_text, case["doc_text"], options, files=case.get("files"))
        except genpkg.GenError as e:
            out["status"] = "gen_error"
            out["gen_error"] = f"{e}"
            out["gen_error_type"] = e.exc_type
            return out
        try:
            mod, mods = genpkg.import_package(d, pkg)
        except BaseException as e:  # noqa
            out["status"] = "import_error"
            out["gen_error"] = f"{type(e).__name__}: {e}"
            out["gen_error_type"] = type(e).__name__
            return out
        kind = client_kind(options)
        is_async = clients.BUNDLED[kind][2]
        client_name = options.get("client_name", "Client")
        Client = getattr(mod, client_name)
        mname = find_method(Client, case["op_name"])
        assignments = case.get("kwargs_list") or ([{"v": True}, {"v": False}] if case.get("uses_var") else [{}])
        if case.get("auto_kwargs"):
            # required variables get the first value of the type-derived menu, built with the package's own classes
            from ariadne_codegen.utils import process_name
            from graphql import type_from_ast
            from . import inputs as _inputs
            odef = next(x for x in parse(case["doc_text"]).definitions if x.kind == "operation_definition" and x.name and x.name.value == case["op_name"])
            argsc = case.get("arg_scalars") or {}
            kw = {}
            for v in odef.variable_definitions or ():
                t = type_from_ast(schema, v.type)
                if not is_non_null_type(t) or v.default_value is not None:
                    continue
                spec = _inputs.menu(t, depth=2, custom={k: [x] for k, x in argsc.items()})[0]
                kw[process_name(v.variable.name.value, convert_to_snake_case=SNAKE["on"])] = _inputs.build(spec, mod, lambda n, x: x)
            assignments = [kw]
        first = True
        ann_seen = set()
        for kwargs in assignments:
            def mk():
                c = clients.make_client(Client, is_async, None, **clients.tracer_kwargs(kind, case.get("tracer", "none")))
                return c
            # one client, handler bound later
            holder = {}

            def handler(request):
                return holder["h"](request)

            c = clients.make_client(Client, is_async, handler, **clients.tracer_kwargs(kind, case.get("tracer", "none")))
            method = getattr(c, mname)

            captured = {}
            state = {}

            def h(request):
                body = json.loads(request.content)
                captured["body"] = body
                captured["n"] = captured.get("n", 0) + 1
                try:
                    res, doc = refexec.execute(schema, body["query"], body.get("variables") or {}, state["choose"],
                                               operation_name=body.get("operationName"), scalar_values=case.get("scalar_values"))
                except Exception as e:  # noqa
                    res = None
                    if "c05" in checks and "c01" not in checks and "c02" not in checks:
                        # C05 judges the models against the authored selection: when the sent document is unusable (C01/C02's subject),
                        # answer with the authored operation after the documented __typename rewrite
                        try:
                            res, doc = refexec.execute(schema, canonical_document(schema, case["doc_text"], case["op_name"]), body.get("variables") or {}, state["choose"],
                                                       operation_name=case["op_name"], scalar_values=case.get("scalar_values"))
                            captured["fallback_document"] = True
                        except Exception:  # noqa
                            res = None
                    if res is None:
                        captured["handler_error"] = f"{type(e).__name__}: {e}"
                        return httpx.Response(200, json={"data": None, "errors": [{"message": "handler: " + str(e)}]})
                captured["exec"] = res
                captured["doc"] = doc
                payload = {"data": res.data}
                if res.errors:
                    payload["errors"] = [{"message": e.message} for e in res.errors]
                return httpx.Response(200, json=payload)

            holder["h"] = h

            def run(choose):
                state["choose"] = choose
                captured.clear()
                try:
                    outcome = ("ok", clients.call(is_async, method, **kwargs))
                except BaseException as e:  # noqa
                    outcome = ("exc", e)
                return dict(outcome=outcome, **captured)

            ex = Explorer(run, bound=case.get("bound", 2), max_runs=case.get("max_runs", 300))
            for choices, sizes, obs in ex.run_all():
                out["runs"] += 1
                ctx = {"variables": kwargs, "choices": list(choices)}
                if obs.get("n", 0) != 1:
                    problems.append(("request_count", f"{obs.get('n', 0)} requests sent", ctx))
                    continue
                body = obs["body"]
                if first:
                    out["sent_query"] = body.get("query")
                    if "c02" in checks:
                        p2 = []
                        check_c02(schema, case["doc_text"], case["op_name"], body, p2)
                        problems.extend((c_, d_, ctx) for c_, d_ in p2)
                    first = False
                if obs.get("handler_error"):
                    if "c02" not in checks:
                        problems.append(("sent_document_rejected_by_reference", obs["handler_error"], ctx))
                    continue
                res = obs["exec"]
                if res.errors:
                    # executor errors (non-null violation propagated etc.): not a conformant error-free response
                    out["outcomes"].add("executor_error")
                    continue
                out["responses"] += 1
                data = res.data
                ctx = dict(ctx, data=data)
                kind_, val = obs["outcome"]
                if kind_ == "exc":
                    out["outcomes"].add("rejected:" + type(val).__name__)
                    if "c01" in checks:
                        problems.append(("response_rejected", f"{type(val).__name__}: {str(val)[:400]}", ctx))
                    continue
                out["outcomes"].add("accepted")
                if "c01" in checks:
                    p1 = []
                    try:
                        check_c01(schema, obs["doc"], body.get("variables") or {}, data, val, p1)
                    except Exception as e:  # noqa
                        import traceback
                        p1.append(("harness_error", traceback.format_exc()[-800:]))
                    problems.extend((c_, d_, ctx) for c_, d_ in p1)
                if "c05" in checks:
                    from . import strict
                    try:
                        p5, n5, s5 = strict.check_corruptions(schema, obs["doc"], data, type(val), case.get("c05_limit"))
                        for k_, v_ in s5.items():
                            out[k_] = out.get(k_, 0) + v_
                        pa, na = strict.check_annotations(schema, obs["doc"], body.get("variables") or {}, data, val, ann_seen)
                    except Exception:  # noqa
                        import traceback
                        p5, n5, pa, na = [("harness_error", traceback.format_exc()[-800:], {})], 0, [], 0
                    out["corruptions"] = out.get("corruptions", 0) + n5
                    out["annotations"] = out.get("annotations", 0) + na
                    problems.extend((c_, d_, dict(ctx, **x_)) for c_, d_, x_ in p5 + pa)
            out["capped"] = out["capped"] or ex.capped
        if "c05" in checks and case.get("annotations", True):
            pass
    out["outcomes"] = sorted(out["outcomes"])
    # de-duplicate problems per clause (keep the first 3 of each clause)
    kept, per = [], {}
    for c_, d_, ctx in problems:
        per[c_] = per.get(c_, 0) + 1
        if per[c_] <= case.get("keep_per_clause", 3):
            kept.append((c_, d_, ctx))
    out["problem_counts"] = per
    out["problems"] = kept
    return out


# ------------------------------------------------------------------ C02 driver: capture the request of every operation
def norm_ast(node):
    """AST as dict without locations and without the block-string flag (representation only)."""
    d = ast_to_dict(node, locations=False)

    def rec(x):
        if isinstance(x, dict):
            x.pop("block", None)
            for v in x.values():
                rec(v)
        elif isinstance(x, list):
            for v in x:
                rec(v)
    rec(d)
    return d


def canonical_document(schema, doc_text, op_name=None):
    """The authored document after the documented rewrite: __typename added to every selection set on an abstract type."""
    from graphql import FieldNode, NameNode, TypeInfo, TypeInfoVisitor, Visitor, is_abstract_type, get_named_type, print_ast, visit
    ti = TypeInfo(schema)

    class V(Visitor):
        # the generator adds __typename to the selection set of every field whose type is abstract (not to inline fragments / fragment roots)
        def enter_field(self, node, *_):
            t = ti.get_type()
            ss = node.selection_set
            if t is not None and ss is not None and is_abstract_type(get_named_type(t)) and not any(
                    isinstance(s_, FieldNode) and s_.name.value == "__typename" and not s_.alias for s_ in ss.selections):
                ss.selections = (FieldNode(name=NameNode(value="__typename"), directives=(), arguments=()),) + tuple(ss.selections)
    doc = parse(doc_text)
    if op_name:
        doc.definitions = tuple(d for d in doc.definitions if d.kind != "operation_definition" or (d.name and d.name.value == op_name))
    visit(doc, TypeInfoVisitor(ti, V()))
    return print_ast(doc)


def capture_requests(case):
    """case: schema, doc_text, ops=[{name, kwargs}], options, files.  Generates one package, calls every
    operation's method once, returns the captured bodies and C02 problems per operation."""
    schema_text = case["schema"]
    schema = get_schema(schema_text)
    options = case.get("options") or {}
    out = {"status": "ok", "ops": {}, "problems": []}
    with genpkg.scratch() as d:
        import os
        if options.get("files_to_include"):
            options = dict(options, files_to_include=[os.path.join(d, p[1:]) if p.startswith("@") else p for p in options["files_to_include"]])
        try:
            pkg, pdir, _ = genpkg.generate(d, schema_text, case["doc_text"], options, files=case.get("files"))
        except genpkg.GenError as e:
            out.update(status="gen_error", gen_error=str(e), gen_error_type=e.exc_type)
            return out
        try:
            mod, mods = genpkg.import_package(d, pkg)
        except BaseException as e:  # noqa
            out.update(status="import_error", gen_error=f"{type(e).__name__}: {e}", gen_error_type=type(e).__name__)
            return out
        kind = client_kind(options)
        is_async = clients.BUNDLED[kind][2]
        Client = getattr(mod, options.get("client_name", "Client"))
        if "operations" in mods:
            out["operations_constants"] = {k: v for k, v in vars(mods["operations"]).items() if k.isupper() and isinstance(v, str)}
        import asyncio

        class _FakeWS:
            """Scripted connection: ack, then complete; records what the client sends."""
            def __init__(self):
                self.sent, self.frames, self.closed = [], ['{"type": "connection_ack"}', '{"type": "complete", "id": "x"}'], False

            async def send(self, m):
                self.sent.append(m)

            async def recv(self):
                return self.frames.pop(0)

            def __aiter__(self):
                return self

            async def __anext__(self):
                if self.closed or not self.frames:
                    raise StopAsyncIteration
                return self.frames.pop(0)

            async def close(self, *a, **k):
                self.closed = True

        for op in case["ops"]:
            captured = {}
            if op.get("subscription"):
                if not is_async:
                    continue
                ws = _FakeWS()

                class _CM:
                    async def __aenter__(self_):
                        return ws

                    async def __aexit__(self_, *e):
                        return False
                base_mod = mods.get("async_base_client") or mods.get("async_base_client_open_telemetry")
                old = base_mod.ws_connect
                base_mod.ws_connect = lambda *a, **k: _CM()
                try:
                    c = Client(ws_url="ws://verif.invalid", **clients.tracer_kwargs(kind, case.get("tracer", "none")))

                    async def drain():
                        async for _ in getattr(c, find_method(Client, op["name"]))(**(op.get("kwargs") or {})):
                            pass
                    try:
                        asyncio.run(drain())
                    except Exception as e:  # noqa
                        captured["exc"] = f"{type(e).__name__}: {e}"
                finally:
                    base_mod.ws_connect = old
                subs = [json.loads(m) for m in ws.sent if '"subscribe"' in m]
                if len(subs) != 1:
                    out["problems"].append((op["name"], "request_count", f"{len(subs)} subscribe frames; {captured.get('exc')}"))
                    continue
                body = dict(subs[0].get("payload") or {})
                body.setdefault("variables", {})
                out["ops"][op["name"]] = {"query": body.get("query"), "variables": body.get("variables")}
                p2 = []
                try:
                    check_c02(schema, case["doc_text"], op["name"], body, p2)
                except Exception:  # noqa
                    import traceback
                    p2.append(("harness_error", traceback.format_exc()[-800:]))
                out["problems"].extend((op["name"], c_, d_) for c_, d_ in p2)
                continue

            def handler(request):
                captured["body"] = json.loads(request.content)
                captured["n"] = captured.get("n", 0) + 1
                return httpx.Response(200, json={"data": {}})

            c = clients.make_client(Client, is_async, handler, **clients.tracer_kwargs(kind, case.get("tracer", "none")))
            mname = find_method(Client, op["name"])
            try:
                clients.call(is_async, getattr(c, mname), **(op.get("kwargs") or {}))
            except Exception as e:  # noqa  (validation of the dummy response is irrelevant here)
                captured["exc"] = type(e).__name__
            if captured.get("n") != 1:
                out["problems"].append((op["name"], "request_count", f"{captured.get('n', 0)} requests; {captured.get('exc')}"))
                continue
            body = captured["body"]
            out["ops"][op["name"]] = {"query": body.get("query"), "variables": body.get("variables")}
            p2 = []
            try:
                check_c02(schema, case["doc_text"], op["name"], body, p2)
            except Exception:  # noqa
                import traceback
                p2.append(("harness_error", traceback.format_exc()[-800:]))
            out["problems"].extend((op["name"], c_, d_) for c_, d_ in p2)
    return out
