"""Violation bookkeeping, known findings, replay artefacts, evidence files."""
from __future__ import annotations

import hashlib
import json
import os
import re
import subprocess
import sys
import time

ROOT = os.path.dirname(os.path.dirname(os.path.abspath(__file__)))
FINDINGS_FILE = os.path.join(ROOT, "KNOWN_FINDINGS.txt")
EVIDENCE_SCHEMA = "/root/.vp/EVIDENCE.schema.json"


def seed():
    try:
        return int(os.environ.get("VERIF_SEED", "0"))
    except ValueError:
        return 0


class Finding:
    def __init__(self, prop, sig, text, detail_re=None):
        self.prop, self.sig, self.text = prop, sig, text
        self.detail_re = re.compile(detail_re) if detail_re else None
        self.hits = 0


def load_findings(path=FINDINGS_FILE):
    out = []
    if not os.path.exists(path):
        return out
    for line in open(path, encoding="utf-8"):
        line = line.strip()
        if not line or line.startswith("#"):
            continue
        m = re.match(r"finding:\s+property=(\S+)\s+sig=(\S+)(?:\s+detail~/(.*?)/)?\s*::\s*(.*)$", line)
        if m:
            out.append(Finding(m.group(1), m.group(2), m.group(4), m.group(3)))
    return out


class Report:
    """One per check run.

    violation(clause, features, detail, case): a violation is *known* iff a finding line of
    this property has sig == f"{clause}|{feature}" for one of the case's features (or sig ==
    clause for feature-less findings).  Everything else is written as a replay file and
    fails the check.
    """

    def __init__(self, prop, tier, level):
        self.prop, self.tier, self.level = prop, tier, level
        self.t0 = time.time()
        import glob
        for old in glob.glob(os.path.join(ROOT, "replays", f"{prop}-*.json")):
            try:
                os.remove(old)
            except OSError:
                pass
        self.findings = [f for f in load_findings() if f.prop == prop]
        self.by_sig = {}
        for f in self.findings:
            self.by_sig.setdefault(f.sig, []).append(f)
        self.new = []
        self.known_hits = {}
        self.coverage = {}
        self.assumptions = []
        self.samples = []
        self._seen_new = set()
        self.feature_totals = {}
        self.triage = bool(os.environ.get("VERIF_TRIAGE"))

    def seen(self, features):
        if self.triage:
            for ft in features:
                self.feature_totals[ft] = self.feature_totals.get(ft, 0) + 1

    def print_triage(self):
        by_clause = {}
        for v in self.new:
            by_clause.setdefault(v["clause"], []).append(v)
        for clause, vs in sorted(by_clause.items(), key=lambda kv: -len(kv[1])):
            print(f"#### clause {clause}: {len(vs)} violations")
            remaining = list(vs)
            while remaining:
                cnt = {}
                for v in remaining:
                    for ft in v["features"]:
                        cnt[ft] = cnt.get(ft, 0) + 1
                if not cnt:
                    print(f"     (no features) {len(remaining)} e.g.", json.dumps(remaining[0]["case"], default=str)[:300], "::", remaining[0]["detail"][:200])
                    break
                ratio, c, ft = max((min(c / max(self.feature_totals.get(ft, c), 1), 1.0), c, ft) for ft, c in cnt.items())
                ex = next(v for v in remaining if ft in v["features"])
                print(f"     {ratio:5.2f} {c:5d}/{self.feature_totals.get(ft, 0):5d}  {ft}   e.g. {json.dumps(ex['case'].get('query', ex['case']), default=str)[:200]} :: {ex['detail'][:150]!r}")
                remaining = [v for v in remaining if ft not in v["features"]]

    def violation(self, clause, features, detail, case):
        sigs = [clause] + [f"{clause}|{ft}" for ft in sorted(features or [])]
        for s in sigs:
            for f in self.by_sig.get(s, ()):
                # an optional detail~/regex/ narrows a finding to the failure it was recorded for
                if f.detail_re is None or f.detail_re.search(str(detail)):
                    f.hits += 1
                    return "known"
        self.new.append({"clause": clause, "features": sorted(features or []), "detail": str(detail)[:2000], "case": case})
        return "new"

    def sample(self, obj, limit=6):
        if len(self.samples) < limit:
            self.samples.append(obj)

    def finish(self, coverage, assumptions=None, extra=None):
        wall = time.time() - self.t0
        cov = dict(coverage)
        cov.setdefault("samples", self.samples or [{"note": "no sample recorded"}])
        known = [{"sig": f.sig, "hits": f.hits, "what": f.text} for f in self.findings if f.hits]
        cov["known_findings_hit"] = known
        cov["known_findings_listed_but_not_hit"] = [f.sig for f in self.findings if not f.hits]
        # group new violations by signature, keep the simplest (first) case of each
        groups = {}
        for v in self.new:
            k = (v["clause"], tuple(v["features"]))
            groups.setdefault(k, []).append(v)
        ev = {
            "property_id": self.prop,
            "tier": self.tier,
            "seed": seed(),
            "level": self.level,
            "coverage": cov,
            "assumptions": assumptions or [],
            "wall_s": round(wall, 2),
            "violations": len(self.new),
        }
        if extra:
            ev.update(extra)
        # VERIF_SCRATCH_OUT: seeded-change experiments (tools/try_seed*.sh) write their evidence and replay files elsewhere, so that the
        # committed evidence always comes from a run against /repo itself
        evdir = os.path.join(os.environ["VERIF_SCRATCH_OUT"], "evidence") if os.environ.get("VERIF_SCRATCH_OUT") else os.path.join(ROOT, "evidence")
        os.makedirs(evdir, exist_ok=True)
        evpath = os.path.join(evdir, f"{self.prop}.json")
        with open(evpath, "w") as f:
            json.dump(ev, f, indent=1, sort_keys=True, default=str)
            f.write("\n")
        for f_ in self.findings:
            if f_.hits:
                print(f"KNOWN-FINDING: property={self.prop} {f_.sig} :: {f_.text} (cases: {f_.hits})")
        rc = 0
        if groups:
            os.makedirs(os.path.join(ROOT, "replays"), exist_ok=True)
            shown = 0
            for (clause, feats), vs in groups.items():
                if shown >= 25:
                    shown += 1
                    continue
                v = vs[0]
                h = hashlib.sha1(json.dumps([clause, feats, v["case"]], sort_keys=True, default=str).encode()).hexdigest()[:10]
                path = os.path.join(ROOT, "replays", f"{self.prop}-{h}.json")
                with open(path, "w") as f:
                    json.dump({"property": self.prop, "clause": clause, "features": list(feats), "detail": v["detail"],
                               "case": v["case"], "similar_cases": len(vs)}, f, indent=1, default=str)
                if shown < 25:
                    print(f"VIOLATION property={self.prop} replay={path}")
                    print(f"   clause={clause} features={list(feats)} cases={len(vs)} :: {v['detail'][:300]}")
                shown += 1
            if shown > 25:
                print(f"   ... {shown - 25} further violation groups not written (same run)")
            rc = 1
        if self.triage:
            self.print_triage()
        ok = validate_evidence(evpath)
        print(f"[{self.prop}] tier={self.tier} wall={wall:.1f}s new_violations={len(self.new)} known_hit={len(known)} evidence={'ok' if ok else 'INVALID'}")
        if not ok:
            rc = rc or 2
        return rc


def validate_evidence(path):
    """Validate with jsonschema from the tooling venv when present; else structural check."""
    try:
        r = subprocess.run(
            ["python3-vt", "-c",
             "import json,sys,jsonschema; jsonschema.validate(json.load(open(sys.argv[1])), json.load(open(sys.argv[2])))",
             path, EVIDENCE_SCHEMA], capture_output=True, text=True, timeout=60)
        if r.returncode != 0:
            print(r.stderr[-1500:], file=sys.stderr)
        return r.returncode == 0
    except FileNotFoundError:
        ev = json.load(open(path))
        return all(k in ev for k in ("property_id", "tier", "seed", "level", "coverage", "wall_s"))
