"""Module exposing exactly one plugin (module-form plugin entry, see PLUGINS.md)."""
from mc.testplugins import TagAPlugin  # noqa: F401
