"""Virtual asyncio loop: the harness decides which ready handle runs next, so task interleavings
become explorer choice points.  No selector, virtual clock."""
from __future__ import annotations

import asyncio
import heapq
from asyncio import events


class VirtualLoop(asyncio.BaseEventLoop):
    def __init__(self):
        super().__init__()
        self._vtime = 0.0
        self.steps = 0

    def time(self):
        return self._vtime

    def _process_events(self, event_list):
        pass

    def _write_to_self(self):
        pass

    def run_controlled(self, main_coros, choose, max_steps=100000):
        """Run coroutines as tasks until all are done.  `choose(n, label)` picks among ready handles
        (index 0 = FIFO order = what the stock loop would do).  Returns list of (result|exception)."""
        asyncio.set_event_loop(self)
        events._set_running_loop(self)
        try:
            tasks = [self.create_task(c) for c in main_coros]
            while not all(t.done() for t in tasks):
                while self._scheduled and self._scheduled[0]._when <= self._vtime:
                    h = heapq.heappop(self._scheduled)
                    h._scheduled = False
                    if not h._cancelled:
                        self._ready.append(h)
                ready = [h for h in self._ready if not h._cancelled]
                if not ready:
                    self._ready.clear()
                    if self._scheduled:
                        self._vtime = self._scheduled[0]._when
                        continue
                    raise RuntimeError("deadlock: no ready handle and unfinished tasks")
                i = choose(len(ready), "sched") if len(ready) > 1 else 0
                h = ready[i]
                self._ready.remove(h)
                self.steps += 1
                if self.steps > max_steps:
                    raise RuntimeError("step horizon exceeded")
                h._run()
            out = []
            for t in tasks:
                try:
                    out.append(("ok", t.result()))
                except BaseException as e:  # noqa
                    out.append(("exc", e))
            # drain remaining callbacks deterministically
            for _ in range(1000):
                if not self._ready:
                    break
                self._ready.popleft()._run()
            return out
        finally:
            events._set_running_loop(None)
            asyncio.set_event_loop(None)
