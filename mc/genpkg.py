"""Generate a client package with the real generator and import it (inside a forked child)."""
from __future__ import annotations

import contextlib
import importlib
import io
import itertools
import os
import shutil
import sys
import tempfile

TMP_ROOT = os.environ.get("VERIF_TMP") or ("/dev/shm" if os.path.isdir("/dev/shm") else tempfile.gettempdir())
_counter = itertools.count()


def warm():
    """Import everything heavy once in the parent (zygote)."""
    import black, isort, autoflake, httpx, pydantic, graphql, toml, click  # noqa
    import ariadne_codegen.main  # noqa
    import ariadne_codegen.client_generators.package  # noqa
    import ariadne_codegen.contrib.shorter_results, ariadne_codegen.contrib.extract_operations  # noqa
    import ariadne_codegen.contrib.client_forward_refs, ariadne_codegen.contrib.no_reimports  # noqa
    # warm black's grammar cache
    black.format_str("x = 1\n", mode=black.Mode())


def scratch_dir(prefix="verif-"):
    return tempfile.mkdtemp(prefix=prefix, dir=TMP_ROOT)


class GenError(Exception):
    def __init__(self, exc):
        super().__init__(f"{type(exc).__name__}: {exc}")
        self.exc = exc
        self.exc_type = type(exc).__name__


def write_inputs(root, schema, queries, files=None):
    os.makedirs(root, exist_ok=True)
    if isinstance(schema, dict):
        sp = os.path.join(root, "schema_dir")
        for rel, txt in schema.items():
            p = os.path.join(sp, rel)
            os.makedirs(os.path.dirname(p), exist_ok=True)
            open(p, "w", encoding="utf-8").write(txt)
    else:
        sp = os.path.join(root, "schema.graphql")
        open(sp, "w", encoding="utf-8").write(schema)
    qp = None
    if queries is not None:
        if isinstance(queries, dict):
            qp = os.path.join(root, "queries_dir")
            for rel, txt in queries.items():
                p = os.path.join(qp, rel)
                os.makedirs(os.path.dirname(p), exist_ok=True)
                open(p, "w", encoding="utf-8").write(txt)
        else:
            qp = os.path.join(root, "queries.graphql")
            open(qp, "w", encoding="utf-8").write(queries)
    for name, txt in (files or {}).items():
        p = os.path.join(root, name)
        os.makedirs(os.path.dirname(p), exist_ok=True)
        open(p, "w", encoding="utf-8").write(txt)
    return sp, qp


def make_config(root, sp, qp, pkg, options=None):
    sec = {"schema_path": sp, "target_package_name": pkg, "target_package_path": root,
           "include_comments": "none"}
    if qp:
        sec["queries_path"] = qp
    sec.update(options or {})
    if sec.get("remote_schema_url"):
        sec.pop("schema_path", None)
    return {"tool": {"ariadne-codegen": sec}}


def serve_introspection(schema_text):
    """Replace httpx.post as seen from ariadne_codegen.schema by graphql-core executing the received query on the SDL."""
    import httpx
    from graphql import build_schema, graphql_sync
    import ariadne_codegen.schema as acs
    schema = build_schema(schema_text)

    def fake_post(url, json=None, headers=None, verify=True, **kw):
        res = graphql_sync(schema, json["query"])
        return httpx.Response(200, json={"data": res.data})
    acs.httpx.post = fake_post


def generate(root, schema, queries, options=None, files=None, pkg=None):
    """Write inputs under `root`, run the generator (same call `main` makes after toml.load).
    Returns (pkg_name, pkg_dir, stdout).  Raises GenError wrapping the original exception."""
    from ariadne_codegen.main import client

    pkg = pkg or f"gqlpkg_{os.getpid()}_{next(_counter)}"
    sp, qp = write_inputs(root, schema, queries, files)
    cfg = make_config(root, sp, qp, pkg, options)
    out = io.StringIO()
    try:
        with contextlib.redirect_stdout(out):
            client(cfg)
    except BaseException as e:  # noqa
        raise GenError(e) from e
    return pkg, os.path.join(root, pkg), out.getvalue()


def import_package(root, pkg, all_modules=True):
    """Import the generated package (and every module of it)."""
    if root not in sys.path:
        sys.path.insert(0, root)
    importlib.invalidate_caches()
    mod = importlib.import_module(pkg)
    mods = {"__init__": mod}
    if all_modules:
        for fn in sorted(os.listdir(os.path.join(root, pkg))):
            if fn.endswith(".py") and fn != "__init__.py":
                mods[fn[:-3]] = importlib.import_module(f"{pkg}.{fn[:-3]}")
    return mod, mods


@contextlib.contextmanager
def scratch():
    d = scratch_dir()
    try:
        yield d
    finally:
        shutil.rmtree(d, ignore_errors=True)
