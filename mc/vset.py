"""Owned set-iteration order.

`install()` puts a finder at the front of sys.meta_path that loads every `ariadne_codegen.*` module from its
source in /repo after rewriting set displays, set comprehensions and `set(...)` / `frozenset(...)` calls into
`__vset__(...)`.  `__vset__` builds a `set` subclass whose iteration order is decided by the explorer: choice 0 is
the natural (hash) order, the alternatives are permutations of it (all of them up to size 3; reversal, adjacent
transpositions and rotations beyond).  Nothing in /repo is edited.
"""
from __future__ import annotations

import ast
import builtins
import importlib.abc
import importlib.machinery
import importlib.util
import itertools
import sys

STATE = {"choose": None, "sites": 0, "rewritten": {}}


def permutations_menu(n):
    """List of index permutations; entry 0 is the identity."""
    ident = tuple(range(n))
    if n <= 3:
        perms = list(itertools.permutations(range(n)))
    else:
        perms = [ident, tuple(reversed(ident))]
        for i in range(n - 1):
            p = list(ident)
            p[i], p[i + 1] = p[i + 1], p[i]
            perms.append(tuple(p))
        for r in range(1, n):
            perms.append(ident[r:] + ident[:r])
    out, seen = [], set()
    for p in [ident] + perms:
        if p not in seen:
            seen.add(p)
            out.append(p)
    return out


class VSet(set):
    __slots__ = ()

    def __iter__(self):
        items = list(set.__iter__(self))
        ch = STATE["choose"]
        if ch is None or len(items) < 2:
            return iter(items)
        menu = permutations_menu(len(items))
        c = ch(len(menu), ("set", len(items)))
        return iter([items[i] for i in menu[c]])

    # algebra stays in the subclass
    def _w(self, r):
        return VSet(set.__iter__(r)) if isinstance(r, set) and not isinstance(r, VSet) else r

    def union(self, *o):
        return VSet(set.union(set(set.__iter__(self)), *[_plain(x) for x in o]))

    def intersection(self, *o):
        return VSet(set.intersection(set(set.__iter__(self)), *[_plain(x) for x in o]))

    def difference(self, *o):
        return VSet(set.difference(set(set.__iter__(self)), *[_plain(x) for x in o]))

    def symmetric_difference(self, o):
        return VSet(set.symmetric_difference(set(set.__iter__(self)), _plain(o)))

    def copy(self):
        return VSet(set.__iter__(self))

    def __or__(self, o):
        return self.union(o) if isinstance(o, (set, frozenset)) else NotImplemented

    def __ror__(self, o):
        return self.union(o) if isinstance(o, (set, frozenset)) else NotImplemented

    def __and__(self, o):
        return self.intersection(o) if isinstance(o, (set, frozenset)) else NotImplemented

    def __rand__(self, o):
        return self.intersection(o) if isinstance(o, (set, frozenset)) else NotImplemented

    def __sub__(self, o):
        return self.difference(o) if isinstance(o, (set, frozenset)) else NotImplemented

    def __rsub__(self, o):
        return VSet(set.difference(set(_plain(o)), set(set.__iter__(self)))) if isinstance(o, (set, frozenset)) else NotImplemented

    def __xor__(self, o):
        return self.symmetric_difference(o) if isinstance(o, (set, frozenset)) else NotImplemented

    def __reduce__(self):
        return (VSet, (list(set.__iter__(self)),))


def _plain(x):
    if isinstance(x, VSet):
        return set(set.__iter__(x))
    return x


def __vset__(x):
    if isinstance(x, frozenset):
        return x  # immutable sets in this code base are only used for membership
    if isinstance(x, VSet):
        return VSet(set.__iter__(x))
    return VSet(x)


class Rewriter(ast.NodeTransformer):
    def __init__(self):
        self.n = 0

    def _wrap(self, node):
        self.n += 1
        return ast.copy_location(ast.Call(func=ast.Name(id="__vset__", ctx=ast.Load()), args=[node], keywords=[]), node)

    def visit_Set(self, node):
        self.generic_visit(node)
        return self._wrap(node)

    def visit_SetComp(self, node):
        self.generic_visit(node)
        return self._wrap(node)

    def visit_Call(self, node):
        self.generic_visit(node)
        if isinstance(node.func, ast.Name) and node.func.id == "set":
            return self._wrap(node)
        return node


class Loader(importlib.abc.SourceLoader):
    def __init__(self, fullname, path):
        self.fullname, self.path = fullname, path

    def get_filename(self, fullname):
        return self.path

    def get_data(self, path):
        with open(path, "rb") as f:
            return f.read()

    def source_to_code(self, data, path, *, _optimize=-1):
        tree = ast.parse(data, filename=path)
        rw = Rewriter()
        tree = ast.fix_missing_locations(rw.visit(tree))
        STATE["rewritten"][path] = rw.n
        STATE["sites"] += rw.n
        return compile(tree, path, "exec", dont_inherit=True, optimize=_optimize)

    def get_code(self, fullname):  # never use cached bytecode
        return self.source_to_code(self.get_data(self.path), self.path)


class Finder(importlib.abc.MetaPathFinder):
    def find_spec(self, fullname, path, target=None):
        if fullname != "ariadne_codegen" and not fullname.startswith("ariadne_codegen."):
            return None
        spec = importlib.machinery.PathFinder.find_spec(fullname, path)
        if spec is None or not spec.origin or not spec.origin.endswith(".py"):
            return spec
        if "/dependencies/" in spec.origin:
            return spec  # bundled runtime files are copied, not executed by the generator
        loader = Loader(fullname, spec.origin)
        return importlib.util.spec_from_file_location(fullname, spec.origin, loader=loader,
                                                       submodule_search_locations=spec.submodule_search_locations)


def install():
    if any(m.startswith("ariadne_codegen") for m in sys.modules):
        raise RuntimeError("vset.install() must run before ariadne_codegen is imported")
    builtins.__vset__ = __vset__
    sys.meta_path.insert(0, Finder())


def set_chooser(ch):
    STATE["choose"] = ch
