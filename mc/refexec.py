"""Reference GraphQL semantics (graphql-core) driven by explorer choices.

* `execute(schema, query_text, variables, choose)`: executes the query text the client
  actually sent; every nullable position, list length and abstract runtime type is a choice
  point.  Default (choice 0): non-null, length 1, first possible type (sorted by name).
* `walk(schema, doc, variables, data, visit)`: walks a response in parallel with the
  operation using graphql-core's own field collection, reporting for every object position
  its static type, runtime type and the field definitions of its keys.
"""
from __future__ import annotations

from graphql import (
    GraphQLEnumType, GraphQLList, GraphQLNonNull, GraphQLObjectType, GraphQLScalarType, execute_sync,
    get_named_type, is_abstract_type, is_composite_type, is_enum_type, is_leaf_type, is_list_type,
    is_non_null_type, parse, validate, specified_rules, get_operation_ast,
)
from graphql.execution.collect_fields import collect_fields
from graphql.execution.values import get_variable_values

SCALARS = {"ID": "id1", "String": "str", "Int": 7, "Float": 1.5, "Boolean": True}
LIST_LENGTHS = (1, 0, 2)


class Obj:
    __slots__ = ("typename", "args_log")

    def __init__(self, typename):
        self.typename = typename


def custom_scalar_value(name):
    return {"k": [1, "x"], "scalar": name}


class ChoiceExecutor:
    def __init__(self, schema, choose, scalar_values=None, record=None, enum_choices=False):
        self.schema = schema
        self.choose = choose
        self.scalar_values = scalar_values or {}
        self.record = record  # optional list collecting (parent, field, args)
        self.enum_choices = enum_choices

    def gen(self, t, label):
        if is_non_null_type(t):
            return self.gen_nn(t.of_type, label)
        if self.choose(2, ("null", label)) == 1:
            return None
        return self.gen_nn(t, label)

    def gen_nn(self, t, label):
        if is_list_type(t):
            n = LIST_LENGTHS[self.choose(len(LIST_LENGTHS), ("len", label))]
            return [self.gen(t.of_type, f"{label}[{i}]") for i in range(n)]
        if is_enum_type(t):
            names = list(t.values)
            i = self.choose(len(names), ("enum", label)) if self.enum_choices else 0
            return t.values[names[i]].value if t.values[names[i]].value is not None else names[i]
        if is_leaf_type(t):
            if t.name in self.scalar_values:
                return self.scalar_values[t.name]
            if t.name in SCALARS:
                return SCALARS[t.name]
            return custom_scalar_value(t.name)
        if is_abstract_type(t):
            poss = sorted(p.name for p in self.schema.get_possible_types(t))
            return Obj(poss[self.choose(len(poss), ("type", label))])
        return Obj(t.name)

    def resolver(self, source, info, **args):
        if self.record is not None:
            self.record.append((info.parent_type.name, info.field_name, args))
        return self.gen(info.return_type, "/".join(str(p) for p in info.path.as_list()))

    @staticmethod
    def type_resolver(value, info, abstract_type):
        return value.typename


def execute(schema, query_text, variables, choose, operation_name=None, **kw):
    """Return (ExecutionResult, document).  Raises ValueError if the text does not parse/validate."""
    doc = parse(query_text)
    errs = validate(schema, doc, specified_rules)
    if errs:
        raise ValueError("sent document invalid: " + "; ".join(e.message for e in errs))
    ex = ChoiceExecutor(schema, choose, **kw)
    res = execute_sync(schema, doc, root_value=Obj(schema.query_type.name if schema.query_type else "Query"),
                       variable_values=variables, operation_name=operation_name,
                       field_resolver=ex.resolver, type_resolver=ex.type_resolver)
    return res, doc


# ------------------------------------------------------------------ response walker
class Position:
    """One object position of a response."""
    __slots__ = ("path", "static_type", "runtime_type", "data", "fields")

    def __init__(self, path, static_type, runtime_type, data, fields):
        self.path, self.static_type, self.runtime_type, self.data, self.fields = path, static_type, runtime_type, data, fields


def walk(schema, doc, variables, data, operation_name=None):
    """Yield Position objects (pre-order).  `fields` maps response key -> (field_nodes, GraphQLField|None)."""
    op = get_operation_ast(doc, operation_name)
    fragments = {d.name.value: d for d in doc.definitions if d.kind == "fragment_definition"}
    coerced = get_variable_values(schema, op.variable_definitions or [], variables or {})
    if isinstance(coerced, list):
        raise ValueError(f"variables do not coerce: {coerced}")
    root = schema.get_root_type(op.operation)
    out = []

    def sub(path, static_t, sel_sets, value):
        # value is a dict at an object position of static named type static_t
        if is_abstract_type(static_t):
            tn = value.get("__typename") if isinstance(value, dict) else None
            rt = schema.get_type(tn) if tn else None
        else:
            rt = static_t
        fields = {}
        if rt is not None:
            grouped = {}
            for ss in sel_sets:
                for k, nodes in collect_fields(schema, fragments, coerced, rt, ss).items():
                    grouped.setdefault(k, []).extend(nodes)
            for k, nodes in grouped.items():
                fname = nodes[0].name.value
                fdef = rt.fields.get(fname) if fname != "__typename" else None
                fields[k] = (nodes, fdef)
        out.append(Position(path, static_t, rt, value, fields))
        if rt is None or not isinstance(value, dict):
            return
        for k, (nodes, fdef) in fields.items():
            if fdef is None or k not in value:
                continue
            named = get_named_type(fdef.type)
            if not is_composite_type(named):
                continue
            sss = [n.selection_set for n in nodes if n.selection_set]
            descend(path + (k,), fdef.type, named, sss, value[k])

    def descend(path, t, named, sss, v):
        if v is None:
            return
        if is_non_null_type(t):
            t = t.of_type
        if is_list_type(t):
            if isinstance(v, list):
                for i, item in enumerate(v):
                    descend(path + (i,), t.of_type, named, sss, item)
            return
        sub(path, named, sss, v)

    sub((), root, [op.selection_set], data)
    return out
