#!/bin/sh
# Offline setup: nothing to build — the framework is pure Python run by /venv/bin/python,
# TLC/spin are pre-installed.  Verify the toolchain is present and byte-compile the harness.
set -e
cd "$(dirname "$0")"
/venv/bin/python -c "import graphql, pydantic, httpx, black, isort, autoflake, websockets, ariadne_codegen; print('python deps ok', graphql.version, pydantic.VERSION)"
command -v tlc >/dev/null && echo "tlc ok" || echo "WARNING: tlc missing (C13 model check would fail)"
mkdir -p evidence replays
chmod +x check
echo "setup done"
